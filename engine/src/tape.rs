//! Byte tape: every generated case is a pure function of a tape.
//! An exhausted tape yields zeros, so shorter / zeroed tapes decode to simpler cases.

pub struct Tape<'a> {
    data: &'a [u8],
    pos: usize,
}

impl<'a> Tape<'a> {
    pub fn new(data: &'a [u8]) -> Self {
        Tape { data, pos: 0 }
    }
    pub fn consumed(&self) -> usize {
        self.pos.min(self.data.len())
    }
    pub fn exhausted(&self) -> bool {
        self.pos >= self.data.len()
    }
    pub fn u8(&mut self) -> u8 {
        let v = self.data.get(self.pos).copied().unwrap_or(0);
        self.pos += 1;
        v
    }
    pub fn u16(&mut self) -> u16 {
        let a = self.u8() as u16;
        let b = self.u8() as u16;
        (a << 8) | b
    }
    pub fn u32(&mut self) -> u32 {
        let a = self.u16() as u32;
        let b = self.u16() as u32;
        (a << 16) | b
    }
    pub fn u64(&mut self) -> u64 {
        ((self.u32() as u64) << 32) | self.u32() as u64
    }
    /// uniform-ish value in 0..n, monotone in the tape value (0 -> 0)
    pub fn below(&mut self, n: usize) -> usize {
        if n <= 1 {
            return 0;
        }
        if n <= 256 {
            ((self.u8() as usize) * n) >> 8
        } else if n <= 65536 {
            ((self.u16() as usize) * n) >> 16
        } else {
            (((self.u32() as u64) * (n as u64)) >> 32) as usize
        }
    }
    /// value in lo..=hi
    pub fn range(&mut self, lo: usize, hi: usize) -> usize {
        if hi <= lo {
            return lo;
        }
        lo + self.below(hi - lo + 1)
    }
    /// true with probability num/256 (0 on exhausted tape => false)
    pub fn chance(&mut self, num: u32) -> bool {
        // high values are "true" so that a zero tape yields false
        (self.u8() as u32) >= 256 - num.min(256)
    }
    /// percent chance
    pub fn pct(&mut self, p: u32) -> bool {
        self.chance(p * 256 / 100)
    }
    pub fn pick<'b, T>(&mut self, xs: &'b [T]) -> &'b T {
        &xs[self.below(xs.len())]
    }
    /// index chosen with the given weights; index 0 on a zero tape
    pub fn weighted(&mut self, w: &[u32]) -> usize {
        let total: u32 = w.iter().sum();
        if total == 0 {
            return 0;
        }
        let mut v = self.below(total as usize) as u32;
        for (i, x) in w.iter().enumerate() {
            if v < *x {
                return i;
            }
            v -= *x;
        }
        w.len() - 1
    }
    pub fn bytes(&mut self, n: usize) -> Vec<u8> {
        (0..n).map(|_| self.u8()).collect()
    }
}

pub fn splitmix(x: &mut u64) -> u64 {
    *x = x.wrapping_add(0x9E37_79B9_7F4A_7C15);
    let mut z = *x;
    z = (z ^ (z >> 30)).wrapping_mul(0xBF58_476D_1CE4_E5B9);
    z = (z ^ (z >> 27)).wrapping_mul(0x94D0_49BB_1331_11EB);
    z ^ (z >> 31)
}

pub fn fnv(s: &[u8]) -> u64 {
    let mut h: u64 = 0xcbf29ce484222325;
    for b in s {
        h ^= *b as u64;
        h = h.wrapping_mul(0x100000001b3);
    }
    h
}

/// the tape for (seed, property, case index)
pub fn tape_for(seed: u64, prop: &str, index: u64, len: usize) -> Vec<u8> {
    let mut st = seed
        .wrapping_mul(0xA24B_AED4_963E_E407)
        .wrapping_add(fnv(prop.as_bytes()))
        .wrapping_add(index.wrapping_mul(0x9FB2_1C65_1E98_DF25));
    // warm up
    splitmix(&mut st);
    let mut out = Vec::with_capacity(len + 8);
    while out.len() < len {
        out.extend_from_slice(&splitmix(&mut st).to_le_bytes());
    }
    out.truncate(len);
    out
}

pub fn hex(b: &[u8]) -> String {
    let mut s = String::with_capacity(b.len() * 2);
    for x in b {
        s.push_str(&format!("{:02x}", x));
    }
    s
}
pub fn unhex(s: &str) -> Vec<u8> {
    let s = s.trim().as_bytes();
    let mut out = Vec::with_capacity(s.len() / 2);
    let v = |c: u8| -> u8 {
        match c {
            b'0'..=b'9' => c - b'0',
            b'a'..=b'f' => c - b'a' + 10,
            b'A'..=b'F' => c - b'A' + 10,
            _ => 0,
        }
    };
    let mut i = 0;
    while i + 1 < s.len() {
        out.push((v(s[i]) << 4) | v(s[i + 1]));
        i += 2;
    }
    out
}
