//! Building and loading languages: grammar.json -> parser.c (with /repo's generator, in-process)
//! -> shared object (cc) -> dlopen -> tree_sitter::Language.
use crate::tape::fnv;
use serde_json::Value;
use std::collections::HashMap;
use std::path::{Path, PathBuf};
use std::process::Command;
use std::sync::{Mutex, OnceLock};
use tree_sitter::Language;
use tree_sitter_generate::OptLevel;

pub fn verif_root() -> PathBuf {
    PathBuf::from(std::env::var("VERIF_ROOT").unwrap_or_else(|_| "/verif".to_string()))
}
pub fn work_dir() -> PathBuf {
    let p = std::env::var("VERIF_WORK").map(PathBuf::from).unwrap_or_else(|_| verif_root().join("work"));
    let _ = std::fs::create_dir_all(&p);
    p
}
pub fn langs_dir() -> PathBuf {
    let p = work_dir().join("langs");
    let _ = std::fs::create_dir_all(&p);
    p
}

fn parser_cc() -> String {
    std::env::var("VERIF_PARSER_CC").unwrap_or_else(|_| "cc".to_string())
}
fn parser_cflags() -> Vec<String> {
    std::env::var("VERIF_PARSER_CFLAGS")
        .unwrap_or_default()
        .split_whitespace()
        .map(|s| s.to_string())
        .collect()
}

/// generate parser.c text for a grammar; Err = the generator rejected the grammar
pub fn generate_c(grammar_json: &str, opt: OptLevel) -> Result<(String, String), String> {
    let mut diags = Vec::new();
    match tree_sitter_generate::generate_parser_for_grammar(grammar_json, Some((0, 0, 1)), opt, &mut diags) {
        Ok((name, c)) => Ok((name, c)),
        Err(e) => Err(format!("{e}")),
    }
}

fn header_dir() -> PathBuf {
    // include dir with tree_sitter/parser.h (from the generate crate built from /repo)
    let d = langs_dir().join(format!("inc-{:016x}", fnv(tree_sitter_generate::PARSER_HEADER.as_bytes())));
    let ts = d.join("tree_sitter");
    if !ts.join("parser.h").exists() {
        let _ = std::fs::create_dir_all(&ts);
        let tmp = ts.join(format!("parser.h.{}", std::process::id()));
        std::fs::write(&tmp, tree_sitter_generate::PARSER_HEADER).unwrap();
        let _ = std::fs::rename(&tmp, ts.join("parser.h"));
        let tmp = ts.join(format!("alloc.h.{}", std::process::id()));
        std::fs::write(&tmp, tree_sitter_generate::ALLOC_HEADER).unwrap();
        let _ = std::fs::rename(&tmp, ts.join("alloc.h"));
        let tmp = ts.join(format!("array.h.{}", std::process::id()));
        std::fs::write(&tmp, tree_sitter_generate::ARRAY_HEADER).unwrap();
        let _ = std::fs::rename(&tmp, ts.join("array.h"));
    }
    d
}

/// compile parser.c (+ optional scanner source text) to a shared object cached by content hash
pub fn compile_so(c_code: &str, scanner: Option<&str>, olevel: &str, salt: &str) -> Result<PathBuf, String> {
    let flags = parser_cflags();
    let mut key = Vec::new();
    key.extend_from_slice(c_code.as_bytes());
    if let Some(s) = scanner {
        key.extend_from_slice(s.as_bytes());
    }
    key.extend_from_slice(parser_cc().as_bytes());
    key.extend_from_slice(flags.join(" ").as_bytes());
    key.extend_from_slice(olevel.as_bytes());
    key.extend_from_slice(salt.as_bytes());
    key.extend_from_slice(tree_sitter_generate::PARSER_HEADER.as_bytes());
    let h = fnv(&key) ^ (key.len() as u64).rotate_left(40);
    let dir = langs_dir();
    let so = dir.join(format!("{:016x}.so", h));
    if so.exists() {
        return Ok(so);
    }
    let inc = header_dir();
    let uniq = format!("{:016x}.{}.{:?}", h, std::process::id(), std::thread::current().id()).replace(['(', ')'], "");
    let src = dir.join(format!("{uniq}.parser.c"));
    std::fs::write(&src, c_code).map_err(|e| e.to_string())?;
    let mut cmd = Command::new(parser_cc());
    cmd.arg("-shared").arg("-fPIC").arg(olevel).arg("-w").arg("-I").arg(&inc).arg(&src);
    let mut ssrc = None;
    if let Some(s) = scanner {
        let p = dir.join(format!("{uniq}.scanner.c"));
        std::fs::write(&p, s).map_err(|e| e.to_string())?;
        cmd.arg(&p);
        ssrc = Some(p);
    }
    for f in &flags {
        cmd.arg(f);
    }
    let tmp = dir.join(format!("{uniq}.so.tmp"));
    cmd.arg("-o").arg(&tmp);
    let out = cmd.output().map_err(|e| format!("cc spawn: {e}"))?;
    let _ = std::fs::remove_file(&src);
    if let Some(p) = ssrc {
        let _ = std::fs::remove_file(p);
    }
    if !out.status.success() {
        let _ = std::fs::remove_file(&tmp);
        return Err(format!("cc failed: {}", String::from_utf8_lossy(&out.stderr)));
    }
    std::fs::rename(&tmp, &so).map_err(|e| e.to_string())?;
    Ok(so)
}

pub struct Loaded {
    pub language: Language,
    pub lib: libloading::Library,
}

pub fn load_so(so: &Path, name: &str) -> Result<Loaded, String> {
    unsafe {
        let lib = libloading::Library::new(so).map_err(|e| format!("dlopen {so:?}: {e}"))?;
        let sym = format!("tree_sitter_{name}");
        let f: libloading::Symbol<unsafe extern "C" fn() -> *const tree_sitter::ffi::TSLanguage> =
            lib.get(sym.as_bytes()).map_err(|e| format!("dlsym {sym}: {e}"))?;
        let raw = f();
        let language = Language::from_raw(raw);
        Ok(Loaded { language, lib })
    }
}

/// Everything a check needs to know about a zoo language.
pub struct Lang {
    pub name: String,
    pub language: Language,
    pub grammar: Value,
    pub grammar_text: String,
    pub meta: Value,
    pub dir: PathBuf,
    pub so: PathBuf,
    _lib: libloading::Library,
}

impl Lang {
    pub fn query_src(&self, name: &str) -> Option<String> {
        std::fs::read_to_string(self.dir.join("queries").join(name)).ok()
    }
    /// bytes that may be skipped between tokens without being in a leaf
    pub fn skip_bytes(&self) -> Vec<u8> {
        self.meta
            .get("skip_bytes")
            .and_then(|v| v.as_array())
            .map(|a| a.iter().filter_map(|x| x.as_u64()).map(|x| x as u8).collect())
            .unwrap_or_else(|| vec![b' ', b'\t', b'\r', b'\n'])
    }
    pub fn meta_strs(&self, key: &str) -> Vec<String> {
        self.meta
            .get(key)
            .and_then(|v| v.as_array())
            .map(|a| a.iter().filter_map(|x| x.as_str()).map(|s| s.to_string()).collect())
            .unwrap_or_default()
    }
    pub fn meta_bool(&self, key: &str) -> bool {
        self.meta.get(key).and_then(|v| v.as_bool()).unwrap_or(false)
    }
}

pub fn zoo_dir(name: &str) -> PathBuf {
    verif_root().join("zoo").join(name)
}

/// Build (if needed) a zoo language with the generator linked into this binary; returns the .so path.
pub fn build_zoo(name: &str) -> Result<PathBuf, String> {
    let dir = zoo_dir(name);
    let gtext = std::fs::read_to_string(dir.join("grammar.json")).map_err(|e| format!("{name}: {e}"))?;
    let (gname, c) = generate_c(&gtext, OptLevel::default()).map_err(|e| format!("generate {name}: {e}"))?;
    let base = name.rsplit('/').next().unwrap();
    if gname != base {
        return Err(format!("zoo dir {name} holds grammar named {gname}"));
    }
    let scanner = std::fs::read_to_string(dir.join("scanner.c")).ok();
    compile_so(&c, scanner.as_deref(), "-O1", "")
}

static ZOO: OnceLock<Mutex<HashMap<String, &'static Lang>>> = OnceLock::new();

/// Load a zoo language (building it if the parent has not already). Leaked: lives for the process.
pub fn zoo(name: &str) -> &'static Lang {
    let m = ZOO.get_or_init(|| Mutex::new(HashMap::new()));
    let mut g = m.lock().unwrap();
    if let Some(l) = g.get(name) {
        return l;
    }
    let so = build_zoo(name).unwrap_or_else(|e| panic!("INFRA: cannot build zoo language {name}: {e}"));
    let dir = zoo_dir(name);
    let gtext = std::fs::read_to_string(dir.join("grammar.json")).unwrap();
    let grammar: Value = serde_json::from_str(&gtext).unwrap();
    let meta: Value = std::fs::read_to_string(dir.join("meta.json"))
        .ok()
        .map(|t| serde_json::from_str(&t).unwrap_or_else(|e| panic!("INFRA: meta.json of {name}: {e}")))
        .unwrap_or(Value::Null);
    let gname = grammar["name"].as_str().unwrap().to_string();
    let ld = load_so(&so, &gname).unwrap_or_else(|e| panic!("INFRA: {e}"));
    let l: &'static Lang = Box::leak(Box::new(Lang {
        name: name.to_string(),
        language: ld.language,
        grammar,
        grammar_text: gtext,
        meta,
        dir,
        so,
        _lib: ld.lib,
    }));
    g.insert(name.to_string(), l);
    l
}

/// A language generated from an ad-hoc grammar (random grammars). Dropped (dlclosed) with the value.
pub struct TempLang {
    pub language: Language,
    pub c_code: String,
    pub so: PathBuf,
    _lib: libloading::Library,
}

pub fn temp_lang(grammar_json: &str, opt: OptLevel) -> Result<TempLang, String> {
    let (name, c) = generate_c(grammar_json, opt)?;
    let salt = format!("tmp{}", std::process::id());
    let so = compile_so(&c, None, "-O0", &salt).unwrap_or_else(|e| panic!("INFRA: cc on generated parser: {e}"));
    let ld = load_so(&so, &name).unwrap_or_else(|e| panic!("INFRA: {e}"));
    let _ = std::fs::remove_file(&so);
    Ok(TempLang { language: ld.language, c_code: c, so, _lib: ld.lib })
}

/// Run the generator the way the CLI does (grammar.json in a directory -> parser.c + node-types.json in out_dir).
pub fn generate_dir(grammar_json: &str, work: &Path, out_name: &str, opt: OptLevel) -> Result<(Vec<u8>, Vec<u8>), String> {
    let src = work.join("src");
    std::fs::create_dir_all(&src).map_err(|e| e.to_string())?;
    let gpath = src.join("grammar.json");
    if !gpath.exists() {
        std::fs::write(&gpath, grammar_json).map_err(|e| e.to_string())?;
    }
    let out = work.join(out_name);
    let mut diags = Vec::new();
    tree_sitter_generate::generate_parser_in_directory(work.to_path_buf(), Some(out.clone()), Some(gpath), tree_sitter::LANGUAGE_VERSION, None, None, true, opt, &mut diags).map_err(|e| format!("{e}"))?;
    let c = std::fs::read(out.join("parser.c")).map_err(|e| e.to_string())?;
    let n = std::fs::read(out.join("node-types.json")).map_err(|e| e.to_string())?;
    Ok((c, n))
}

/// node-types.json text for a grammar (generated in a scratch directory)
pub fn node_types_json(grammar_json: &str) -> Result<String, String> {
    let d = work_dir().join(format!("nt-{}-{:x}", std::process::id(), fnv(grammar_json.as_bytes())));
    let _ = std::fs::remove_dir_all(&d);
    let r = generate_dir(grammar_json, &d, "out", OptLevel::default());
    let _ = std::fs::remove_dir_all(&d);
    r.map(|(_, n)| String::from_utf8_lossy(&n).into_owned())
}
