//! Parent / worker process model, shrinking, evidence, exit protocol.
use crate::core::{Check, Ctx, Tier};
use crate::lang;
use crate::tape::{hex, tape_for, unhex, Tape};
use serde_json::{json, Value};
use std::collections::{BTreeMap, BTreeSet, HashSet};
use std::io::{BufRead, BufReader, Write};
use std::path::{Path, PathBuf};
use std::process::{Child, ChildStdin, ChildStdout, Command, Stdio};
use std::sync::atomic::{AtomicBool, AtomicU64, Ordering};
use std::sync::{Arc, Mutex};
use std::time::{Duration, Instant};

pub struct KnownFinding {
    pub property: String,
    pub signature: String,
    pub description: String,
}

pub fn load_known(prop: &str) -> Vec<KnownFinding> {
    let p = lang::verif_root().join("known_findings.json");
    let mut out = vec![];
    if let Ok(t) = std::fs::read_to_string(&p) {
        if let Ok(v) = serde_json::from_str::<Value>(&t) {
            for e in v["findings"].as_array().into_iter().flatten() {
                if e["property"].as_str() == Some(prop) && e["status"].as_str() == Some("open") {
                    out.push(KnownFinding {
                        property: prop.to_string(),
                        signature: e["signature"].as_str().unwrap_or("").to_string(),
                        description: e["description"].as_str().unwrap_or("").to_string(),
                    });
                }
            }
        }
    }
    out
}

// ---------------------------------------------------------------- worker

/// The worker loop runs on a thread with a 1 GiB stack: recursion depth in the code under test is
/// proportional to nesting depth in a few debug/navigation functions, and sanitizer frames are several times
/// larger than normal ones; a stack overflow at a few thousand levels would be an artefact of the default 8 MiB.
pub fn worker_main(check: &'static dyn Check, tier: Tier, seed: u64, strict: bool, inflight: Option<PathBuf>) {
    let h = std::thread::Builder::new().stack_size(1 << 30).spawn(move || worker_loop(check, tier, seed, strict, inflight)).expect("spawn worker thread");
    let _ = h.join();
}

fn worker_loop(check: &dyn Check, tier: Tier, seed: u64, strict: bool, inflight: Option<PathBuf>) {
    let known: BTreeSet<String> = load_known(check.id()).into_iter().map(|k| k.signature).collect();
    let stdin = std::io::stdin();
    let stdout = std::io::stdout();
    for line in stdin.lock().lines() {
        let line = match line {
            Ok(l) => l,
            Err(_) => break,
        };
        let line = line.trim();
        if line.is_empty() {
            continue;
        }
        let (tape, want_sample) = if let Some(rest) = line.strip_prefix("case ") {
            let mut it = rest.split_whitespace();
            let idx: u64 = it.next().unwrap().parse().unwrap();
            let ws = it.next() == Some("s");
            (tape_for(seed, check.id(), idx, check.tape_len()), ws)
        } else if let Some(rest) = line.strip_prefix("tape ") {
            (unhex(rest), true)
        } else if line == "quit" {
            break;
        } else {
            continue;
        };
        if let Some(p) = &inflight {
            let _ = std::fs::write(p, &tape);
        }
        let mut ctx = Ctx::new(strict, tier, seed, known.clone());
        ctx.want_sample = want_sample;
        let mut t = Tape::new(&tape);
        check.run_case(&mut ctx, &mut t);
        if !want_sample && ctx.out.fails.is_empty() {
            ctx.out.sample = Value::Null;
        }
        let mut o = stdout.lock();
        let _ = writeln!(o, "R {}", ctx.out.to_json());
        let _ = o.flush();
    }
}

// ---------------------------------------------------------------- parent side worker handle

struct Worker {
    child: Child,
    stdin: ChildStdin,
    stdout: BufReader<ChildStdout>,
    inflight: PathBuf,
    stderr_path: PathBuf,
    started: Arc<AtomicU64>, // ms since run start when current case started, 0 = idle
}

struct Spawner {
    exe: PathBuf,
    id: String,
    tier: Tier,
    seed: u64,
    run_dir: PathBuf,
    t0: Instant,
}

impl Spawner {
    fn spawn(&self, wid: usize, strict: bool) -> Worker {
        let inflight = self.run_dir.join(format!("w{wid}.inflight"));
        let stderr_path = self.run_dir.join(format!("w{wid}.stderr"));
        let errf = std::fs::File::create(&stderr_path).unwrap();
        let mut cmd = Command::new(&self.exe);
        cmd.arg("--worker")
            .arg(&self.id)
            .arg("--tier")
            .arg(if self.tier == Tier::Quick { "quick" } else { "thorough" })
            .arg("--seed")
            .arg(self.seed.to_string())
            .arg("--inflight")
            .arg(&inflight);
        if strict {
            cmd.arg("--strict");
        }
        let mut child = cmd.stdin(Stdio::piped()).stdout(Stdio::piped()).stderr(errf).spawn().expect("spawn worker");
        let stdin = child.stdin.take().unwrap();
        let stdout = BufReader::new(child.stdout.take().unwrap());
        Worker { child, stdin, stdout, inflight, stderr_path, started: Arc::new(AtomicU64::new(0)) }
    }
}

enum Reply {
    Result(Value),
    Died { status: String, stderr_tail: String, timed_out: bool },
}

impl Worker {
    fn request(&mut self, line: &str, t0: Instant) -> Reply {
        self.started.store(t0.elapsed().as_millis() as u64 + 1, Ordering::SeqCst);
        let ok = writeln!(self.stdin, "{line}").and_then(|_| self.stdin.flush()).is_ok();
        let mut buf = String::new();
        if ok {
            loop {
                buf.clear();
                match self.stdout.read_line(&mut buf) {
                    Ok(0) | Err(_) => break,
                    Ok(_) => {
                        if let Some(rest) = buf.strip_prefix("R ") {
                            if let Ok(v) = serde_json::from_str::<Value>(rest) {
                                self.started.store(0, Ordering::SeqCst);
                                return Reply::Result(v);
                            }
                        }
                        // other output from the code under test: ignore
                    }
                }
            }
        }
        // died
        let timed_out = self.started.load(Ordering::SeqCst) == u64::MAX;
        self.started.store(0, Ordering::SeqCst);
        let status = match self.child.wait() {
            Ok(s) => {
                use std::os::unix::process::ExitStatusExt;
                if let Some(sig) = s.signal() {
                    format!("signal{sig}")
                } else {
                    format!("exit{}", s.code().unwrap_or(-1))
                }
            }
            Err(_) => "unknown".to_string(),
        };
        let stderr_tail = std::fs::read(&self.stderr_path)
            .map(|b| {
                let s = String::from_utf8_lossy(&b).into_owned();
                // a sanitizer report: keep its head (kind + frames), not the shadow-byte dump at the end
                if let Some(i) = s.rfind("==ERROR: ").or_else(|| s.rfind("WARNING: ThreadSanitizer")) {
                    let rep: Vec<&str> = s[i..].lines().take(70).collect();
                    return rep.join("\n");
                }
                let n = s.len();
                let mut start = n.saturating_sub(6000);
                while !s.is_char_boundary(start) {
                    start += 1;
                }
                s[start..].to_string()
            })
            .unwrap_or_default();
        Reply::Died { status, stderr_tail, timed_out }
    }
    fn kill(&mut self) {
        let _ = self.child.kill();
        let _ = self.child.wait();
    }
}

/// For a death by bare signal (e.g. SIGILL from a UBSan trap) re-run the case under gdb to name the faulting frame.
fn gdb_frames(exe: &Path, id: &str, tier: Tier, seed: u64, tape: &[u8]) -> Vec<String> {
    let input = format!("tape {}\n", hex(tape));
    let tmp = lang::work_dir().join(format!("gdb-in-{}.txt", std::process::id()));
    if std::fs::write(&tmp, input).is_err() {
        return vec![];
    }
    let out = Command::new("gdb")
        .arg("-batch")
        .arg("-ex")
        .arg(format!("run < {}", tmp.display()))
        .arg("-ex")
        .arg("bt 12")
        .arg("--args")
        .arg(exe)
        .arg("--worker")
        .arg(id)
        .arg("--tier")
        .arg(if tier == Tier::Quick { "quick" } else { "thorough" })
        .arg("--seed")
        .arg(seed.to_string())
        .env("ASAN_OPTIONS", "detect_leaks=0:abort_on_error=0")
        .stdin(Stdio::null())
        .output();
    let _ = std::fs::remove_file(&tmp);
    let mut frames = vec![];
    if let Ok(o) = out {
        let text = String::from_utf8_lossy(&o.stdout).into_owned();
        for l in text.lines() {
            if l.starts_with('#') {
                // "#0  0x... in func (args) at file:line"
                let f = l.split(" in ").nth(1).or_else(|| l.splitn(3, ' ').nth(2)).unwrap_or("");
                let name = f.split_whitespace().next().unwrap_or("").to_string();
                let at = l.rsplit(" at ").next().unwrap_or("").to_string();
                if !name.is_empty() {
                    frames.push(format!("{name} at {at}"));
                }
            }
        }
    }
    frames
}

fn crash_signature(status: &str, stderr: &str) -> String {
    // sanitizer report?
    let mut kind = String::new();
    for l in stderr.lines() {
        if let Some(i) = l.find("ERROR: AddressSanitizer: ") {
            kind = format!("asan:{}", l[i + 25..].split_whitespace().next().unwrap_or("?"));
        } else if l.contains("ERROR: LeakSanitizer") {
            kind = "lsan:leak".to_string();
        } else if l.contains("WARNING: ThreadSanitizer: ") {
            let i = l.find("ThreadSanitizer: ").unwrap();
            kind = format!("tsan:{}", l[i + 17..].split('(').next().unwrap_or("?").trim().replace(' ', "_"));
        } else if l.contains("Assertion") && l.contains("failed") {
            kind = "assert".to_string();
        } else if l.contains("panicked at") && kind.is_empty() {
            kind = "panic".to_string();
        }
    }
    if stderr.contains("INFRA:") || stderr.contains("symbol lookup error") || stderr.contains("error while loading shared libraries") {
        return "infra".to_string();
    }
    // top frame inside lib/src
    let mut frame = String::new();
    for l in stderr.lines() {
        let l = l.trim();
        if l.starts_with('#') {
            if let Some(i) = l.find(" in ") {
                let f = l[i + 4..].split_whitespace().next().unwrap_or("");
                if f.starts_with("ts_") || f.starts_with("stack_") || f.starts_with("iterator_") || f.starts_with("analysis_") {
                    frame = f.to_string();
                    break;
                }
            }
        }
    }
    if kind == "assert" {
        // a C assert: "file:line: func: Assertion `x' failed."
        for l in stderr.lines() {
            if l.contains("Assertion") && l.contains("failed") {
                // "prog: file:line: [type ]func[(args)]: Assertion `..' failed."
                let parts: Vec<&str> = l.split(": ").collect();
                if parts.len() >= 3 {
                    let f = parts[parts.len() - 2];
                    let f = f.split('(').next().unwrap_or(f);
                    frame = f.split_whitespace().last().unwrap_or("").to_string();
                }
            }
        }
    }
    if kind == "panic" {
        for l in stderr.lines() {
            if let Some(i) = l.find("panicked at ") {
                let loc = l[i + 12..].trim_end_matches(':');
                // keep file only (line numbers move)
                frame = loc.split(':').next().unwrap_or("").rsplit('/').next().unwrap_or("").to_string();
            }
        }
    }
    let mut s = format!("crash:{}", if kind.is_empty() { status.to_string() } else { kind });
    if !frame.is_empty() {
        s.push(':');
        s.push_str(&frame);
    }
    s
}

// ---------------------------------------------------------------- aggregated run state

#[derive(Default)]
struct Agg {
    evaluations: u64,
    inner: u64,
    labels: BTreeMap<String, u64>,
    counters: BTreeMap<String, u64>,
    discards: BTreeMap<String, u64>,
    nontrivial_hashes: HashSet<u64>,
    inner_hashes: HashSet<u64>,
    nontrivial_cases: u64,
    samples: BTreeMap<u64, Value>,
    known_hits: BTreeMap<String, u64>,
    /// signature -> (lowest case index, message, tape)
    failures: BTreeMap<String, (u64, String, Vec<u8>)>,
    failing_cases: u64,
    inconclusive: Vec<String>,
    infra: Vec<String>,
}

pub struct RunOpts {
    pub tier: Tier,
    pub seed: u64,
    pub cases: Option<u64>,
    pub jobs: Option<usize>,
    pub strict: bool,
    pub start_index: u64,
}

fn evidence_path(id: &str) -> PathBuf {
    let d = lang::verif_root().join("evidence");
    let _ = std::fs::create_dir_all(&d);
    d.join(format!("{id}.json"))
}

pub fn run_check(check: &'static dyn Check, opts: RunOpts) -> i32 {
    let t0 = Instant::now();
    let id = check.id().to_string();
    let known = load_known(&id);
    // 1. build zoo languages in the parent (workers then find them in the cache)
    for l in check.langs() {
        if let Err(e) = lang::build_zoo(l) {
            // a zoo grammar the generator now rejects / miscompiles: that is infrastructure unless the check says otherwise
            println!("INCONCLUSIVE property={id} cannot build zoo language {l}: {e}");
            write_evidence(check, &opts, &Agg::default(), t0, Value::Null, 0, &["zoo build failed".to_string()]);
            return 2;
        }
    }
    let extra = match check.parent_prepare(opts.tier, opts.seed) {
        Ok(v) => v,
        Err(e) => {
            println!("INCONCLUSIVE property={id} prepare failed: {e}");
            return 2;
        }
    };
    let run_dir = lang::work_dir().join(format!("run-{}-{}", id, std::process::id()));
    let _ = std::fs::remove_dir_all(&run_dir);
    std::fs::create_dir_all(&run_dir).unwrap();
    let n_cases = opts.cases.unwrap_or_else(|| check.cases(opts.tier));
    let jobs = opts
        .jobs
        .or(check.jobs())
        .unwrap_or_else(|| std::thread::available_parallelism().map(|n| n.get()).unwrap_or(8))
        .max(1)
        .min(n_cases.max(1) as usize);
    let spawner = Arc::new(Spawner {
        exe: std::env::current_exe().unwrap(),
        id: id.clone(),
        tier: opts.tier,
        seed: opts.seed,
        run_dir: run_dir.clone(),
        t0,
    });
    let next = Arc::new(AtomicU64::new(opts.start_index));
    let end = opts.start_index + n_cases;
    let agg = Arc::new(Mutex::new(Agg::default()));
    let watchdog_ms = check.watchdog_s() * 1000;
    let stop = Arc::new(AtomicBool::new(false));
    let mut handles = vec![];
    let mut monitors: Vec<(Arc<AtomicU64>, Arc<Mutex<Option<u32>>>)> = vec![];
    for wid in 0..jobs {
        let spawner = spawner.clone();
        let next = next.clone();
        let agg = agg.clone();
        let started = Arc::new(AtomicU64::new(0));
        let pid_slot: Arc<Mutex<Option<u32>>> = Arc::new(Mutex::new(None));
        monitors.push((started.clone(), pid_slot.clone()));
        let strict = opts.strict;
        let tape_len = check.tape_len();
        let seed = opts.seed;
        let idc = id.clone();
        handles.push(std::thread::spawn(move || {
            let mut w = spawner.spawn(wid, strict);
            w.started = started.clone();
            *pid_slot.lock().unwrap() = Some(w.child.id());
            loop {
                let i = next.fetch_add(1, Ordering::SeqCst);
                if i >= end {
                    break;
                }
                let want_sample = i < opts_sample_limit();
                let line = if want_sample { format!("case {i} s") } else { format!("case {i}") };
                match w.request(&line, spawner.t0) {
                    Reply::Result(v) => {
                        let tape = if v["fails"].as_array().map(|a| !a.is_empty()).unwrap_or(false) {
                            tape_for(seed, &idc, i, tape_len)
                        } else {
                            vec![]
                        };
                        absorb(&mut agg.lock().unwrap(), i, &v, tape);
                    }
                    Reply::Died { status, stderr_tail, timed_out } => {
                        let tape = tape_for(seed, &idc, i, tape_len);
                        let mut a = agg.lock().unwrap();
                        a.evaluations += 1;
                        if timed_out {
                            a.inconclusive.push(format!("case {i}: watchdog expired"));
                            let p = lang::verif_root().join("replays").join(format!("{idc}-timeout-{i}.tape"));
                            let _ = std::fs::write(&p, &tape);
                        } else {
                            let mut sig = crash_signature(&status, &stderr_tail);
                            let mut stderr_tail = stderr_tail;
                            if sig.starts_with("crash:signal") && !sig.contains(":ts_") && a.failures.len() < 12 {
                                drop(a);
                                let frames = gdb_frames(&spawner.exe, &idc, spawner.tier, seed, &tape);
                                a = agg.lock().unwrap();
                                if let Some(f) = frames.iter().find(|f| f.starts_with("ts_") || f.contains("lib/src") || f.contains("src/./")) {
                                    sig = format!("{sig}:{}", f.split(' ').next().unwrap_or(""));
                                }
                                stderr_tail.push_str("\ngdb backtrace:\n");
                                stderr_tail.push_str(&frames.join("\n"));
                            }
                            if sig == "infra" {
                                a.infra.push(format!("case {i}: {}", last_lines(&stderr_tail, 5)));
                            } else {
                                a.failing_cases += 1;
                                let e = a.failures.entry(sig).or_insert((i, String::new(), vec![]));
                                if e.2.is_empty() || i <= e.0 {
                                    *e = (i, format!("worker died ({status}); stderr tail:\n{}", last_lines(&stderr_tail, 30)), tape);
                                }
                            }
                        }
                        drop(a);
                        w = spawner.spawn(wid, strict);
                        w.started = started.clone();
                        *pid_slot.lock().unwrap() = Some(w.child.id());
                    }
                }
            }
            let _ = writeln!(w.stdin, "quit");
            let _ = w.stdin.flush();
            drop(w.stdin);
            let _ = w.child.wait();
        }));
    }
    // watchdog thread
    let wd_stop = stop.clone();
    let wd = std::thread::spawn(move || {
        while !wd_stop.load(Ordering::SeqCst) {
            std::thread::sleep(Duration::from_millis(250));
            let now = t0.elapsed().as_millis() as u64;
            for (st, pid) in &monitors {
                let s = st.load(Ordering::SeqCst);
                if s != 0 && s != u64::MAX && now > s + watchdog_ms {
                    st.store(u64::MAX, Ordering::SeqCst);
                    if let Some(p) = *pid.lock().unwrap() {
                        unsafe {
                            libc::kill(p as i32, libc::SIGKILL);
                        }
                    }
                }
            }
        }
    });
    for h in handles {
        let _ = h.join();
    }
    stop.store(true, Ordering::SeqCst);
    let _ = wd.join();
    let mut agg = Arc::try_unwrap(agg).ok().unwrap().into_inner().unwrap();

    // 2. shrink + report failures
    let mut violations = 0;
    let mut exit = 0;
    let failures: Vec<(String, (u64, String, Vec<u8>))> = agg.failures.iter().map(|(k, v)| (k.clone(), v.clone())).collect();
    let mut reported: Vec<Value> = vec![];
    for (sig, (idx, msg, tape)) in failures.iter().take(6) {
        let (small, smsg, tries) = shrink(&spawner, check, sig, tape, opts.strict);
        let path = save_replay(&id, sig, &small, smsg.as_deref().unwrap_or(msg), *idx, opts.seed, opts.tier);
        println!("VIOLATION property={id} replay={}", path.display());
        println!("  signature: {sig}");
        println!("  case index {idx} (seed {}), shrunk {} -> {} bytes in {tries} candidates", opts.seed, tape.len(), small.len());
        for l in smsg.as_deref().unwrap_or(msg).lines().take(40) {
            println!("  | {l}");
        }
        reported.push(json!({"signature": sig, "replay": path.display().to_string(), "first_case": idx}));
        violations += 1;
        exit = 1;
    }
    if failures.len() > 6 {
        println!("  ({} further distinct failure signatures not shrunk)", failures.len() - 6);
    }
    // 3. known findings
    for k in &known {
        if let Some(n) = agg.known_hits.get(&k.signature) {
            println!("KNOWN-FINDING: property={id} {} [{}; hit by {n} cases this run]", k.description, k.signature);
        } else {
            println!("KNOWN-FINDING: property={id} {} [{}; not reached this run]", k.description, k.signature);
        }
    }
    // 4. generator health
    let mut notes = vec![];
    if exit == 0 {
        if !agg.infra.is_empty() {
            println!("INCONCLUSIVE property={id} infrastructure failure: {}", agg.infra[0]);
            exit = 2;
        }
        if !agg.inconclusive.is_empty() {
            println!("INCONCLUSIVE property={id} {} case(s) hit the watchdog: {}", agg.inconclusive.len(), agg.inconclusive[0]);
            exit = 2;
        }
        let ev = agg.evaluations.max(1) as f64;
        let disc: u64 = agg.discards.values().sum();
        if n_cases >= 200 {
            if disc as f64 / ev > 0.5 {
                println!("INCONCLUSIVE property={id} generator unhealthy: {disc} of {} cases discarded", agg.evaluations);
                exit = 2;
            }
            for (l, f) in check.floors() {
                let c = if let Some(cn) = l.strip_prefix('#') {
                    *agg.counters.get(cn).unwrap_or(&0) as f64 / agg.inner.max(1) as f64
                } else {
                    *agg.labels.get(l).unwrap_or(&0) as f64 / ev
                };
                if c < f {
                    println!("INCONCLUSIVE property={id} generator unhealthy: class '{l}' at {:.2}% < floor {:.2}%", c * 100.0, f * 100.0);
                    notes.push(format!("floor missed: {l}"));
                    exit = 2;
                }
            }
        }
    }
    agg.failures.retain(|_, _| true);
    write_evidence(check, &opts, &agg, t0, json!({"reported": reported, "prepare": extra}), violations, &notes);
    let _ = std::fs::remove_dir_all(&run_dir);
    let nt = if agg.inner_hashes.is_empty() { agg.nontrivial_hashes.len() } else { agg.inner_hashes.len() };
    if std::env::var("VERIF_VERBOSE").is_ok() {
        for (l, c) in &agg.labels {
            println!("  label {l}: {c} ({:.1}%)", *c as f64 * 100.0 / agg.evaluations.max(1) as f64);
        }
        for (l, c) in &agg.counters {
            println!("  counter {l}: {c} ({:.1}% of inner)", *c as f64 * 100.0 / agg.inner.max(1) as f64);
        }
    }
    println!(
        "{id}: {} cases ({} inner evaluations), {} distinct non-trivial, {} discarded, {} known-finding hits, {} violation signature(s), {:.1}s",
        agg.evaluations,
        agg.inner,
        nt,
        agg.discards.values().sum::<u64>(),
        agg.known_hits.values().sum::<u64>(),
        violations,
        t0.elapsed().as_secs_f64()
    );
    exit
}

fn opts_sample_limit() -> u64 {
    5
}

fn last_lines(s: &str, n: usize) -> String {
    let v: Vec<&str> = s.lines().collect();
    if s.contains("==ERROR: ") || s.contains("ThreadSanitizer") {
        // sanitizer report: its head is the informative part
        return v[..v.len().min(n + 15)].join("\n");
    }
    v[v.len().saturating_sub(n)..].join("\n")
}

fn absorb(a: &mut Agg, idx: u64, v: &Value, tape: Vec<u8>) {
    a.evaluations += 1;
    a.inner += v["inner"].as_u64().unwrap_or(0);
    if let Some(d) = v["discard"].as_str() {
        *a.discards.entry(d.to_string()).or_insert(0) += 1;
    }
    for l in v["labels"].as_array().into_iter().flatten() {
        if let Some(s) = l.as_str() {
            *a.labels.entry(s.to_string()).or_insert(0) += 1;
        }
    }
    if let Some(o) = v["ctr"].as_object() {
        for (k, c) in o {
            *a.counters.entry(k.clone()).or_insert(0) += c.as_u64().unwrap_or(0);
        }
    }
    if v["nontrivial"].as_bool() == Some(true) {
        a.nontrivial_cases += 1;
        if let Some(h) = v["hash"].as_str().and_then(|h| u64::from_str_radix(h, 16).ok()) {
            a.nontrivial_hashes.insert(h);
        }
    }
    for h in v["ih"].as_array().into_iter().flatten() {
        if let Some(h) = h.as_str().and_then(|h| u64::from_str_radix(h, 16).ok()) {
            a.inner_hashes.insert(h);
        }
    }
    if idx < opts_sample_limit() && !v["sample"].is_null() {
        a.samples.insert(idx, v["sample"].clone());
    }
    for k in v["known"].as_array().into_iter().flatten() {
        if let Some(s) = k.as_str() {
            *a.known_hits.entry(s.to_string()).or_insert(0) += 1;
        }
    }
    let fails = v["fails"].as_array().cloned().unwrap_or_default();
    if !fails.is_empty() {
        a.failing_cases += 1;
    }
    for f in fails {
        let sig = f["sig"].as_str().unwrap_or("?").to_string();
        let msg = f["msg"].as_str().unwrap_or("").to_string();
        let e = a.failures.entry(sig).or_insert((idx, msg.clone(), tape.clone()));
        if idx < e.0 {
            *e = (idx, msg, tape.clone());
        }
    }
}

fn write_evidence(check: &dyn Check, opts: &RunOpts, a: &Agg, t0: Instant, extra: Value, violations: i32, notes: &[String]) {
    let samples: Vec<Value> = a.samples.values().cloned().collect();
    let distinct = if a.inner_hashes.is_empty() { a.nontrivial_hashes.len() } else { a.inner_hashes.len() };
    let ev = if a.inner > 0 { a.inner } else { a.evaluations };
    let mut assumptions = check.assumptions();
    assumptions.push("the explicit tree is read through one TreeCursor depth-first walk and the Node getters of the Rust binding".to_string());
    let v = json!({
        "property_id": check.id(),
        "tier": if opts.tier == Tier::Quick { "quick" } else { "thorough" },
        "seed": opts.seed,
        "level": check.level(),
        "coverage": {
            "evaluations": ev,
            "cases": a.evaluations,
            "distinct_nontrivial": distinct,
            "nontrivial_cases": a.nontrivial_cases,
            "rule": check.rule(),
            "samples": if samples.is_empty() { vec![json!("(no sample rendered)")] } else { samples },
            "labels": a.labels,
            "inner_counters": a.counters,
            "discards": a.discards,
            "excluded_known": a.known_hits,
            "failing_cases": a.failing_cases,
            "failure_signatures": a.failures.keys().collect::<Vec<_>>(),
            "inconclusive": a.inconclusive,
            "notes": notes,
            "extra": extra,
        },
        "assumptions": assumptions,
        "wall_s": t0.elapsed().as_secs_f64(),
        "violations": violations,
    });
    let p = evidence_path(check.id());
    let tmp = p.with_extension("json.tmp");
    std::fs::write(&tmp, serde_json::to_string_pretty(&v).unwrap()).unwrap();
    std::fs::rename(&tmp, &p).unwrap();
}

fn save_replay(id: &str, sig: &str, tape: &[u8], msg: &str, idx: u64, seed: u64, tier: Tier) -> PathBuf {
    let d = lang::verif_root().join("replays");
    let _ = std::fs::create_dir_all(&d);
    let clean: String = sig.chars().map(|c| if c.is_ascii_alphanumeric() { c } else { '_' }).collect();
    let clean = &clean[..clean.len().min(60)];
    let h = crate::tape::fnv(tape) & 0xffff_ffff;
    let p = d.join(format!("{id}-{clean}-{h:08x}.tape"));
    let _ = std::fs::write(&p, tape);
    let j = json!({"property": id, "signature": sig, "message": msg, "found_at_case": idx, "seed": seed, "tier": if tier == Tier::Quick { "quick" } else { "thorough" }, "tape_hex": hex(tape)});
    let _ = std::fs::write(p.with_extension("json"), serde_json::to_string_pretty(&j).unwrap());
    p
}

/// run one tape in a fresh single worker; returns (signatures, message of first) or crash signature
fn run_tape(sp: &Spawner, w: &mut Option<Worker>, tape: &[u8], strict: bool, watchdog_ms: u64) -> (Vec<(String, String)>, bool) {
    if w.is_none() {
        *w = Some(sp.spawn(999, strict));
    }
    let wk = w.as_mut().unwrap();
    // simple watchdog: a helper thread kills the child if it overruns
    let pid = wk.child.id();
    let done = Arc::new(AtomicBool::new(false));
    let d2 = done.clone();
    let killed = Arc::new(AtomicBool::new(false));
    let k2 = killed.clone();
    let th = std::thread::spawn(move || {
        let t = Instant::now();
        while !d2.load(Ordering::SeqCst) {
            if t.elapsed().as_millis() as u64 > watchdog_ms {
                k2.store(true, Ordering::SeqCst);
                unsafe {
                    libc::kill(pid as i32, libc::SIGKILL);
                }
                break;
            }
            std::thread::sleep(Duration::from_millis(20));
        }
    });
    let r = wk.request(&format!("tape {}", hex(tape)), sp.t0);
    done.store(true, Ordering::SeqCst);
    let _ = th.join();
    match r {
        Reply::Result(v) => {
            let fails = v["fails"]
                .as_array()
                .map(|a| a.iter().map(|f| (f["sig"].as_str().unwrap_or("").to_string(), f["msg"].as_str().unwrap_or("").to_string())).collect())
                .unwrap_or_default();
            (fails, false)
        }
        Reply::Died { status, stderr_tail, .. } => {
            *w = None;
            if killed.load(Ordering::SeqCst) {
                return (vec![], true);
            }
            let mut sig = crash_signature(&status, &stderr_tail);
            let mut extra = String::new();
            if sig.starts_with("crash:signal") && !sig.contains(":ts_") {
                let frames = gdb_frames(&sp.exe, &sp.id, sp.tier, sp.seed, tape);
                if let Some(f) = frames.iter().find(|f| f.starts_with("ts_") || f.contains("lib/src") || f.contains("src/./")) {
                    sig = format!("{sig}:{}", f.split(' ').next().unwrap_or(""));
                }
                extra = format!("\ngdb backtrace:\n{}", frames.join("\n"));
            }
            (vec![(sig, format!("worker died ({status}); stderr tail:\n{}{extra}", last_lines(&stderr_tail, 30)))], false)
        }
    }
}

fn shrink(sp: &Spawner, check: &dyn Check, sig: &str, tape: &[u8], strict: bool) -> (Vec<u8>, Option<String>, usize) {
    let mut w: Option<Worker> = None;
    let mut best = tape.to_vec();
    let mut best_msg: Option<String> = None;
    let mut tries = 0usize;
    let max_tries = 1500usize;
    let wd = check.watchdog_s() * 1000;
    let deadline = Instant::now() + Duration::from_secs(240);
    let mut test = |cand: &[u8], w: &mut Option<Worker>, tries: &mut usize| -> Option<String> {
        *tries += 1;
        let (fails, _to) = run_tape(sp, w, cand, strict, wd);
        fails.into_iter().find(|(s, _)| s == sig).map(|(_, m)| m)
    };
    // confirm reproduction first
    match test(&best, &mut w, &mut tries) {
        Some(m) => best_msg = Some(m),
        None => {
            if let Some(mut wk) = w.take() {
                wk.kill();
            }
            return (best, None, tries);
        }
    }
    // 1. truncate tail (binary search on length)
    let mut lo = 0usize;
    let mut hi = best.len();
    while lo < hi && tries < max_tries && Instant::now() < deadline {
        let mid = (lo + hi) / 2;
        if let Some(m) = test(&best[..mid], &mut w, &mut tries) {
            best_msg = Some(m);
            hi = mid;
        } else {
            lo = mid + 1;
        }
    }
    best.truncate(hi);
    // 2. delete blocks, zero blocks, minimise bytes
    let mut improved = true;
    while improved && tries < max_tries && Instant::now() < deadline {
        improved = false;
        for &bs in &[64usize, 16, 4, 1] {
            let mut i = 0;
            while i + bs <= best.len() && tries < max_tries && Instant::now() < deadline {
                let mut cand = best.clone();
                cand.drain(i..i + bs);
                if let Some(m) = test(&cand, &mut w, &mut tries) {
                    best = cand;
                    best_msg = Some(m);
                    improved = true;
                } else {
                    i += bs;
                }
            }
        }
        for &bs in &[16usize, 4, 1] {
            let mut i = 0;
            while i + bs <= best.len() && tries < max_tries && Instant::now() < deadline {
                if best[i..i + bs].iter().all(|b| *b == 0) {
                    i += bs;
                    continue;
                }
                let mut cand = best.clone();
                for b in &mut cand[i..i + bs] {
                    *b = 0;
                }
                if let Some(m) = test(&cand, &mut w, &mut tries) {
                    best = cand;
                    best_msg = Some(m);
                    improved = true;
                }
                i += bs;
            }
        }
        // halve individual bytes
        let mut i = 0;
        while i < best.len() && tries < max_tries && Instant::now() < deadline {
            if best[i] > 1 {
                let mut cand = best.clone();
                cand[i] /= 2;
                if let Some(m) = test(&cand, &mut w, &mut tries) {
                    best = cand;
                    best_msg = Some(m);
                    improved = true;
                    continue;
                }
            }
            i += 1;
        }
    }
    // strip trailing zeros (an exhausted tape reads zeros anyway)
    while best.last() == Some(&0) {
        best.pop();
    }
    if let Some(mut wk) = w.take() {
        let _ = writeln!(wk.stdin, "quit");
        wk.kill();
    }
    (best, best_msg, tries)
}

/// replay one tape file in strict mode (no known-finding suppression)
pub fn replay(check: &'static dyn Check, path: &Path, tier: Tier, seed: u64) -> i32 {
    // a tape is interpreted under the tier (size limits) and seed of the run that saved it: both are in the side-car file
    let (mut tier, mut seed) = (tier, seed);
    if let Ok(txt) = std::fs::read_to_string(path.with_extension("json")) {
        if let Ok(v) = serde_json::from_str::<serde_json::Value>(&txt) {
            match v["tier"].as_str() {
                Some("quick") => tier = Tier::Quick,
                Some("thorough") => tier = Tier::Thorough,
                _ => {}
            }
            if let Some(s) = v["seed"].as_u64() {
                seed = s;
            }
        }
    }
    let tape = match std::fs::read(path) {
        Ok(t) => t,
        Err(e) => {
            println!("cannot read {path:?}: {e}");
            return 2;
        }
    };
    for l in check.langs() {
        if let Err(e) = lang::build_zoo(l) {
            println!("INCONCLUSIVE cannot build zoo language {l}: {e}");
            return 2;
        }
    }
    let run_dir = lang::work_dir().join(format!("replay-{}-{}", check.id(), std::process::id()));
    std::fs::create_dir_all(&run_dir).unwrap();
    let sp = Spawner { exe: std::env::current_exe().unwrap(), id: check.id().to_string(), tier, seed, run_dir: run_dir.clone(), t0: Instant::now() };
    let mut w = None;
    // VERIF_LENIENT=1: replay as the search ran it (open known findings suppressed) - to see a second, unknown failure of the same case
    let strict = std::env::var_os("VERIF_LENIENT").is_none();
    let (fails, timed_out) = run_tape(&sp, &mut w, &tape, strict, check.watchdog_s() * 1000);
    if let Some(mut wk) = w.take() {
        wk.kill();
    }
    let _ = std::fs::remove_dir_all(&run_dir);
    if timed_out {
        println!("INCONCLUSIVE property={} replay hit the watchdog", check.id());
        return 2;
    }
    if fails.is_empty() {
        println!("replay {}: property {} held", path.display(), check.id());
        0
    } else {
        println!("VIOLATION property={} replay={}", check.id(), path.display());
        for (s, m) in fails {
            println!("  signature: {s}");
            for l in m.lines().take(4000) {
                println!("  | {l}");
            }
        }
        1
    }
}

/// replay every committed regression tape of this property (strict mode) — part of each run
pub fn regression_tapes(id: &str) -> Vec<PathBuf> {
    let d = lang::verif_root().join("regressions").join(id);
    let mut v: Vec<PathBuf> = std::fs::read_dir(&d)
        .map(|r| r.filter_map(|e| e.ok()).map(|e| e.path()).filter(|p| p.extension().map(|e| e == "tape").unwrap_or(false)).collect())
        .unwrap_or_default();
    v.sort();
    v
}
