//! Core types: Check trait, case context and outcome.
use crate::tape::Tape;
use serde_json::{json, Value};
use std::collections::BTreeSet;

#[derive(Clone, Copy, PartialEq, Eq, Debug)]
pub enum Tier {
    Quick,
    Thorough,
}

#[derive(Clone, Debug)]
pub struct Failure {
    pub sig: String,
    pub msg: String,
}

#[derive(Default, Debug)]
pub struct CaseOut {
    pub fails: Vec<Failure>,
    pub known: Vec<String>,
    pub discard: Option<String>,
    pub labels: BTreeSet<String>,
    pub hash: u64,
    pub nontrivial: bool,
    pub sample: Value,
    /// inner evaluations (e.g. compared re-parses, strings enumerated)
    pub inner: u64,
    /// distinct non-trivial inner items (hashes); merged by the parent
    pub inner_hashes: Vec<u64>,
    /// summed counters over inner evaluations
    pub counters: std::collections::BTreeMap<String, u64>,
}

impl CaseOut {
    pub fn to_json(&self) -> Value {
        json!({
            "fails": self.fails.iter().map(|f| json!({"sig": f.sig, "msg": f.msg})).collect::<Vec<_>>(),
            "known": self.known,
            "discard": self.discard,
            "labels": self.labels.iter().collect::<Vec<_>>(),
            "hash": format!("{:016x}", self.hash),
            "nontrivial": self.nontrivial,
            "sample": self.sample,
            "inner": self.inner,
            "ctr": self.counters,
            "ih": self.inner_hashes.iter().map(|h| format!("{:x}", h)).collect::<Vec<_>>(),
        })
    }
}

/// Per-worker context handed to every case.
pub struct Ctx {
    pub strict: bool,
    pub tier: Tier,
    pub seed: u64,
    /// signatures listed as open known findings for this property
    pub known_sigs: BTreeSet<String>,
    pub out: CaseOut,
    /// want a rendered sample for this case
    pub want_sample: bool,
}

impl Ctx {
    pub fn new(strict: bool, tier: Tier, seed: u64, known_sigs: BTreeSet<String>) -> Self {
        Ctx { strict, tier, seed, known_sigs, out: CaseOut::default(), want_sample: true }
    }
    /// Report an oracle failure. Returns true if it is an (unsuppressed) violation.
    pub fn fail(&mut self, sig: impl Into<String>, msg: impl Into<String>) -> bool {
        let sig = sig.into();
        if !self.strict && self.known_sigs.contains(&sig) {
            if !self.out.known.contains(&sig) {
                self.out.known.push(sig);
            }
            false
        } else {
            if self.out.fails.len() < 8 {
                let mut m: String = msg.into();
                if m.len() > 1500 && std::env::var("VERIF_FULLMSG").is_err() {
                    let mut cut = 1500;
                    while !m.is_char_boundary(cut) {
                        cut -= 1;
                    }
                    m.truncate(cut);
                    m.push_str("…");
                }
                self.out.fails.push(Failure { sig, msg: m });
            }
            true
        }
    }
    pub fn is_known(&self, sig: &str) -> bool {
        !self.strict && self.known_sigs.contains(sig)
    }
    pub fn label(&mut self, l: impl Into<String>) {
        self.out.labels.insert(l.into());
    }
    pub fn count(&mut self, c: &str) {
        *self.out.counters.entry(c.to_string()).or_insert(0) += 1;
    }
    pub fn count_if(&mut self, cond: bool, c: &str) {
        if cond {
            self.count(c);
        }
    }
    pub fn label_if(&mut self, c: bool, l: &str) {
        if c {
            self.out.labels.insert(l.to_string());
        }
    }
    pub fn discard(&mut self, why: impl Into<String>) {
        self.out.discard = Some(why.into());
    }
    pub fn failed(&self) -> bool {
        !self.out.fails.is_empty()
    }
}

pub trait Check: Sync + Send {
    fn id(&self) -> &'static str;
    /// generator + non-triviality rule, for the evidence file
    fn rule(&self) -> String;
    fn cases(&self, tier: Tier) -> u64;
    fn tape_len(&self) -> usize {
        4096
    }
    /// zoo languages to build before the workers start
    fn langs(&self) -> Vec<&'static str>;
    /// label -> minimal fraction of evaluations (generator health)
    fn floors(&self) -> Vec<(&'static str, f64)> {
        vec![]
    }
    fn level(&self) -> &'static str {
        "exploration"
    }
    fn assumptions(&self) -> Vec<String> {
        vec![]
    }
    /// per-case watchdog in seconds
    fn watchdog_s(&self) -> u64 {
        120
    }
    /// workers to use (None = all cores)
    fn jobs(&self) -> Option<usize> {
        None
    }
    fn run_case(&self, ctx: &mut Ctx, t: &mut Tape);
    /// called once in the parent before workers start (e.g. multi-process setup); may add evidence extras
    fn parent_prepare(&self, _tier: Tier, _seed: u64) -> Result<Value, String> {
        Ok(Value::Null)
    }
}
