pub mod custom;
pub mod doc;
pub mod edits;
pub mod grammar;
pub mod query;
pub mod sentence;
