pub mod custom;
pub mod doc;
pub mod edits;
pub mod query;
pub mod sentence;
