//! Query pattern AST, renderer and generators (from-tree abstraction and mutation).
use crate::lang::Lang;
use crate::model::xtree::{kind_name, XTree};
use crate::tape::Tape;

#[derive(Clone, Debug, PartialEq)]
pub enum Kind {
    Named(String),
    Anon(String),
    /// (_)
    WildNamed,
    /// _
    Wild,
    Error,
    /// (MISSING), (MISSING kind), (MISSING "text")
    Missing(Option<Box<Kind>>),
    /// (supertype/subtype) or (supertype)
    Super(String, Option<String>),
}

#[derive(Clone, Copy, Debug, PartialEq, Eq)]
pub enum Quant {
    One,
    Opt,
    Star,
    Plus,
}

#[derive(Clone, Debug, PartialEq)]
pub enum Pat {
    Node { kind: Kind, children: Vec<Child>, anchor_last: bool, neg_fields: Vec<String> },
    Alt(Vec<Item>),
    Group(Vec<Child>, bool),
}

/// a pattern with its quantifier and captures
#[derive(Clone, Debug, PartialEq)]
pub struct Item {
    pub pat: Pat,
    pub quant: Quant,
    pub captures: Vec<String>,
}

#[derive(Clone, Debug, PartialEq)]
pub struct Child {
    /// `.` before this child
    pub anchor: bool,
    pub field: Option<String>,
    pub item: Item,
}

#[derive(Clone, Debug, PartialEq)]
pub struct Predicate {
    pub op: String,
    pub capture: String,
    pub args: Vec<PredArg>,
}
#[derive(Clone, Debug, PartialEq)]
pub enum PredArg {
    Capture(String),
    Str(String),
}

#[derive(Clone, Debug)]
pub struct QueryAst {
    pub patterns: Vec<(Item, Vec<Predicate>)>,
}

fn quote(s: &str) -> String {
    let mut o = String::from("\"");
    for c in s.chars() {
        match c {
            '"' => o.push_str("\\\""),
            '\\' => o.push_str("\\\\"),
            '\n' => o.push_str("\\n"),
            '\r' => o.push_str("\\r"),
            '\t' => o.push_str("\\t"),
            '\0' => o.push_str("\\0"),
            c => o.push(c),
        }
    }
    o.push('"');
    o
}

fn render_kind_open(k: &Kind, out: &mut String) -> bool {
    // returns true if a closing paren is needed
    match k {
        Kind::Named(n) => {
            out.push('(');
            out.push_str(n);
            true
        }
        Kind::Anon(s) => {
            out.push_str(&quote(s));
            false
        }
        Kind::WildNamed => {
            out.push_str("(_");
            true
        }
        Kind::Wild => {
            out.push('_');
            false
        }
        Kind::Error => {
            out.push_str("(ERROR");
            true
        }
        Kind::Missing(None) => {
            out.push_str("(MISSING");
            true
        }
        Kind::Missing(Some(k)) => {
            out.push_str("(MISSING ");
            match &**k {
                Kind::Named(n) => out.push_str(n),
                Kind::Anon(s) => out.push_str(&quote(s)),
                _ => out.push('_'),
            }
            true
        }
        Kind::Super(s, None) => {
            out.push('(');
            out.push_str(s);
            true
        }
        Kind::Super(s, Some(t)) => {
            out.push('(');
            out.push_str(s);
            out.push('/');
            out.push_str(t);
            true
        }
    }
}

pub fn render_item(it: &Item, out: &mut String) {
    match &it.pat {
        Pat::Node { kind, children, anchor_last, neg_fields } => {
            let close = render_kind_open(kind, out);
            if close {
                for f in neg_fields {
                    out.push_str(" !");
                    out.push_str(f);
                }
                for c in children {
                    out.push(' ');
                    render_child(c, out);
                }
                if *anchor_last {
                    out.push_str(" .");
                }
                out.push(')');
            }
        }
        Pat::Alt(items) => {
            out.push('[');
            for (i, x) in items.iter().enumerate() {
                if i > 0 {
                    out.push(' ');
                }
                render_item(x, out);
            }
            out.push(']');
        }
        Pat::Group(children, anchor_last) => {
            out.push('(');
            for (i, c) in children.iter().enumerate() {
                if i > 0 {
                    out.push(' ');
                }
                render_child(c, out);
            }
            if *anchor_last {
                out.push_str(" .");
            }
            out.push(')');
        }
    }
    match it.quant {
        Quant::One => {}
        Quant::Opt => out.push('?'),
        Quant::Star => out.push('*'),
        Quant::Plus => out.push('+'),
    }
    for c in &it.captures {
        out.push_str(" @");
        out.push_str(c);
    }
}

fn render_child(c: &Child, out: &mut String) {
    if c.anchor {
        out.push_str(". ");
    }
    if let Some(f) = &c.field {
        out.push_str(f);
        out.push_str(": ");
    }
    render_item(&c.item, out);
}

pub fn render_query(q: &QueryAst) -> String {
    let mut out = String::new();
    for (it, preds) in &q.patterns {
        if preds.is_empty() {
            render_item(it, &mut out);
        } else {
            // predicates live inside an enclosing group
            out.push('(');
            render_item(it, &mut out);
            for p in preds {
                out.push_str(" (#");
                out.push_str(&p.op);
                out.push_str(" @");
                out.push_str(&p.capture);
                for a in &p.args {
                    out.push(' ');
                    match a {
                        PredArg::Capture(c) => {
                            out.push('@');
                            out.push_str(c);
                        }
                        PredArg::Str(s) => out.push_str(&quote(s)),
                    }
                }
                out.push(')');
            }
            out.push(')');
        }
        out.push('\n');
    }
    out
}

pub struct GenCfg {
    /// allow quantifiers, groups, alternations of mixed shapes (soundness-only constructs)
    pub rich: bool,
    pub max_depth: u32,
}

pub struct PatGen<'a> {
    pub lang: &'a Lang,
    pub xt: &'a XTree,
    pub cfg: GenCfg,
    pub next_cap: u32,
    pub supertypes: Vec<(String, Vec<String>)>,
    pub fields: Vec<String>,
}

impl<'a> PatGen<'a> {
    pub fn new(lang: &'a Lang, xt: &'a XTree, cfg: GenCfg) -> Self {
        let l = &lang.language;
        let mut supertypes = vec![];
        for &s in l.supertypes() {
            let name = l.node_kind_for_id(s).unwrap_or("").to_string();
            let subs: Vec<String> = l.subtypes_for_supertype(s).iter().filter(|&&x| l.node_kind_is_named(x)).filter_map(|&x| l.node_kind_for_id(x).map(|s| s.to_string())).collect();
            supertypes.push((name, subs));
        }
        let fields = (1..=l.field_count() as u16).filter_map(|i| l.field_name_for_id(i).map(|s| s.to_string())).collect();
        PatGen { lang, xt, cfg, next_cap: 0, supertypes, fields }
    }
    fn cap(&mut self) -> String {
        self.next_cap += 1;
        format!("c{}", self.next_cap)
    }

    fn kind_of(&self, i: usize) -> Kind {
        let n = &self.xt.nodes[i];
        let l = &self.lang.language;
        if n.missing {
            let inner = if n.named { Kind::Named(kind_name(l, n.kind_id).to_string()) } else { Kind::Anon(kind_name(l, n.kind_id).to_string()) };
            return Kind::Missing(Some(Box::new(inner)));
        }
        if n.error {
            return Kind::Error;
        }
        if n.named {
            Kind::Named(kind_name(l, n.kind_id).to_string())
        } else {
            Kind::Anon(kind_name(l, n.kind_id).to_string())
        }
    }

    /// exclusive supertype of a kind: the kind is only reachable through that supertype (from zoo meta)
    fn exclusive_super(&self, kind: &str) -> Option<String> {
        let m = self.lang.meta.get("supertype_exclusive")?.as_object()?;
        for (sup, subs) in m {
            if subs.as_array().map(|a| a.iter().any(|x| x.as_str() == Some(kind))).unwrap_or(false) {
                return Some(sup.clone());
            }
        }
        None
    }

    /// abstraction of the tree node `i`: guaranteed to match at `i`
    pub fn from_node(&mut self, t: &mut Tape, i: usize, depth: u32, capture_root: bool) -> Item {
        let n = self.xt.nodes[i].clone();
        let mut kind = self.kind_of(i);
        // generalise the kind sometimes
        match (&kind, t.weighted(&[70, 10, 6, 14])) {
            (Kind::Named(_), 1) => kind = Kind::WildNamed,
            (Kind::Named(_), 2) | (Kind::Anon(_), 2) => kind = Kind::Wild,
            (Kind::Named(k), 3) => {
                if let Some(s) = self.exclusive_super(k) {
                    kind = if t.pct(50) { Kind::Super(s, Some(k.clone())) } else { Kind::Super(s, None) };
                }
            }
            (Kind::Missing(_), 1) => kind = Kind::Missing(None),
            _ => {}
        }
        let mut children: Vec<Child> = vec![];
        let mut anchor_last = false;
        let mut neg_fields = vec![];
        // (supertype child) has no documented meaning (the children of a supertype node are its subtypes): no children there
        let can_have_children = matches!(kind, Kind::Named(_) | Kind::WildNamed | Kind::Error | Kind::Super(_, Some(_)));
        if can_have_children && depth < self.cfg.max_depth && !n.children.is_empty() {
            // choose an ordered subset of children
            let keep_n = t.weighted(&[25, 35, 25, 10, 5]);
            let mut idxs: Vec<usize> = vec![];
            if keep_n > 0 {
                let mut cand: Vec<usize> = (0..n.children.len()).collect();
                // prefer named children
                for _ in 0..keep_n.min(cand.len()) {
                    let mut k = t.below(cand.len());
                    if !self.xt.nodes[n.children[cand[k]]].named && t.pct(60) {
                        k = t.below(cand.len());
                    }
                    idxs.push(cand.remove(k));
                }
                idxs.sort();
            }
            let named_idx: Vec<usize> = (0..n.children.len()).filter(|&k| self.xt.nodes[n.children[k]].named).collect();
            for (pos, &k) in idxs.iter().enumerate() {
                let ci = n.children[k];
                let cx = self.xt.nodes[ci].clone();
                let capture_child = t.pct(70);
                let item = self.from_node(t, ci, depth + 1, capture_child);
                let item_named = match &item.pat {
                    Pat::Node { kind, .. } => !matches!(kind, Kind::Anon(_) | Kind::Wild | Kind::Missing(_)),
                    _ => false,
                };
                // truthful anchors (only where the neighbouring patterns are named nodes)
                let mut anchor = false;
                if item_named && cx.named && t.pct(30) {
                    if pos == 0 {
                        anchor = named_idx.first() == Some(&k);
                    } else {
                        let prev_k = idxs[pos - 1];
                        let prev_named = self.xt.nodes[n.children[prev_k]].named && matches!(children[pos - 1].item.pat, Pat::Node { ref kind, .. } if !matches!(kind, Kind::Anon(_) | Kind::Wild | Kind::Missing(_)));
                        let between_named = named_idx.iter().any(|&m| m > prev_k && m < k);
                        anchor = prev_named && !between_named;
                    }
                }
                let field = match cx.field {
                    Some(f) if t.pct(80) => self.lang.language.field_name_for_id(f).map(|s| s.to_string()),
                    _ => None,
                };
                children.push(Child { anchor, field, item });
            }
            if let Some(&lastk) = idxs.last() {
                let cx = &self.xt.nodes[n.children[lastk]];
                let last_named_pat = matches!(children.last().unwrap().item.pat, Pat::Node { ref kind, .. } if !matches!(kind, Kind::Anon(_) | Kind::Wild | Kind::Missing(_)));
                if cx.named && last_named_pat && named_idx.last() == Some(&lastk) && t.pct(25) {
                    anchor_last = true;
                }
            }
            // negated field the node does not have
            // (one to three of them: the engine shares the stored lists between patterns)
            if matches!(kind, Kind::Named(_)) && !self.fields.is_empty() && t.pct(22) {
                let k = 1 + t.weighted(&[50, 30, 20]);
                for _ in 0..k {
                    let f = t.pick(&self.fields).clone();
                    let has = n.children.iter().any(|&c| self.xt.nodes[c].field.and_then(|x| self.lang.language.field_name_for_id(x)) == Some(f.as_str()));
                    if !has && !neg_fields.contains(&f) {
                        neg_fields.push(f);
                    }
                }
            }
        }
        let mut captures = vec![];
        if capture_root {
            captures.push(self.cap());
        }
        let mut item = Item { pat: Pat::Node { kind, children, anchor_last, neg_fields }, quant: Quant::One, captures };
        if self.cfg.rich && depth > 0 {
            match t.weighted(&[70, 8, 8, 8, 6]) {
                1 => item.quant = Quant::Opt,
                2 => item.quant = Quant::Star,
                3 => item.quant = Quant::Plus,
                _ => {}
            }
        }
        // alternation with a decoy (kept quantifier-free: plain node alternatives)
        if depth > 0 && t.pct(12) {
            // a plausible decoy: another child of the same parent (so the alternative is possible in this position)
            let sibs: Vec<usize> = n.parent.map(|p| self.xt.nodes[p].children.clone()).unwrap_or_default();
            let decoy_i = if sibs.is_empty() { i } else { *t.pick(&sibs) };
            let decoy = Item { pat: Pat::Node { kind: self.kind_of(decoy_i), children: vec![], anchor_last: false, neg_fields: vec![] }, quant: Quant::One, captures: vec![] };
            let caps = std::mem::take(&mut item.captures);
            let q = item.quant;
            item.quant = Quant::One;
            let alts = if t.pct(50) { vec![item, decoy] } else { vec![decoy, item] };
            item = Item { pat: Pat::Alt(alts), quant: q, captures: caps };
        }
        item
    }

    /// randomly damage a pattern so that it may become impossible
    pub fn mutate(&mut self, t: &mut Tape, it: &mut Item) {
        let l = &self.lang.language;
        let n_kinds = l.node_kind_count();
        match &mut it.pat {
            Pat::Node { kind, children, .. } => {
                if children.is_empty() || t.pct(35) {
                    // replace the kind by a random visible kind
                    for _ in 0..8 {
                        let id = t.below(n_kinds) as u16;
                        if l.node_kind_is_visible(id) && !l.node_kind_is_supertype(id) {
                            if let Some(name) = l.node_kind_for_id(id) {
                                if name == "ERROR" || name == "end" {
                                    continue;
                                }
                                *kind = if l.node_kind_is_named(id) { Kind::Named(name.to_string()) } else { Kind::Anon(name.to_string()) };
                                if matches!(kind, Kind::Anon(_)) {
                                    children.clear();
                                }
                                break;
                            }
                        }
                    }
                } else {
                    let k = t.below(children.len());
                    match t.below(3) {
                        0 => {
                            let f = if self.fields.is_empty() { None } else { Some(t.pick(&self.fields).clone()) };
                            children[k].field = f;
                        }
                        1 => {
                            let mut c = children[k].item.clone();
                            self.mutate(t, &mut c);
                            children[k].item = c;
                        }
                        _ => {
                            let c = children[k].clone();
                            children.push(c);
                        }
                    }
                }
            }
            Pat::Alt(items) => {
                if !items.is_empty() {
                    let k = t.below(items.len());
                    let mut c = items[k].clone();
                    self.mutate(t, &mut c);
                    items[k] = c;
                }
            }
            Pat::Group(..) => {}
        }
    }
}

pub fn item_has_quantifier(it: &Item) -> bool {
    if it.quant != Quant::One {
        return true;
    }
    match &it.pat {
        Pat::Node { children, .. } => children.iter().any(|c| item_has_quantifier(&c.item)),
        Pat::Alt(items) => items.iter().any(item_has_quantifier),
        Pat::Group(children, _) => children.iter().any(|c| item_has_quantifier(&c.item)),
    }
}

pub fn item_size(it: &Item) -> usize {
    1 + match &it.pat {
        Pat::Node { children, .. } => children.iter().map(|c| item_size(&c.item)).sum::<usize>(),
        Pat::Alt(items) => items.iter().map(item_size).sum::<usize>(),
        Pat::Group(children, _) => children.iter().map(|c| item_size(&c.item)).sum::<usize>(),
    }
}

pub fn item_features(it: &Item, f: &mut std::collections::BTreeSet<&'static str>) {
    match &it.pat {
        Pat::Node { kind, children, anchor_last, neg_fields } => {
            if *anchor_last || children.iter().any(|c| c.anchor) {
                f.insert("q:anchor");
            }
            if children.iter().any(|c| c.field.is_some()) {
                f.insert("q:field");
            }
            if !neg_fields.is_empty() {
                f.insert("q:negated_field");
            }
            match kind {
                Kind::WildNamed | Kind::Wild => {
                    f.insert("q:wildcard");
                }
                Kind::Error => {
                    f.insert("q:error");
                }
                Kind::Missing(_) => {
                    f.insert("q:missing");
                }
                Kind::Super(..) => {
                    f.insert("q:supertype");
                }
                Kind::Anon(_) => {
                    f.insert("q:anonymous");
                }
                _ => {}
            }
            for c in children {
                item_features(&c.item, f);
            }
        }
        Pat::Alt(items) => {
            f.insert("q:alternation");
            for x in items {
                item_features(x, f);
            }
        }
        Pat::Group(children, _) => {
            f.insert("q:group");
            for c in children {
                item_features(&c.item, f);
            }
        }
    }
    if it.quant != Quant::One {
        f.insert("q:quantifier");
    }
}
