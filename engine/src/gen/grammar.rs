//! Random grammars as an AST (rendered to grammar.json), for the generator properties C03, C15, C16.
use crate::tape::Tape;
use serde_json::{json, Value};

#[derive(Clone, Debug, PartialEq)]
pub enum R {
    Blank,
    Str(String),
    Pat(String),
    Sym(String),
    Seq(Vec<R>),
    Choice(Vec<R>),
    Repeat(Box<R>),
    Repeat1(Box<R>),
    Field(String, Box<R>),
    Alias { content: Box<R>, value: String, named: bool },
    /// kind: "PREC" | "PREC_LEFT" | "PREC_RIGHT" | "PREC_DYNAMIC"
    Prec { kind: &'static str, value: i32, content: Box<R> },
    Token(Box<R>),
}

#[derive(Clone, Debug)]
pub struct G {
    pub name: String,
    pub rules: Vec<(String, R)>,
    pub extras: Vec<R>,
    pub inline: Vec<String>,
    pub supertypes: Vec<String>,
    pub conflicts: Vec<Vec<String>>,
    pub word: Option<String>,
}

pub fn opt(r: R) -> R {
    R::Choice(vec![r, R::Blank])
}

impl R {
    pub fn to_json(&self) -> Value {
        match self {
            R::Blank => json!({"type": "BLANK"}),
            R::Str(s) => json!({"type": "STRING", "value": s}),
            R::Pat(p) => json!({"type": "PATTERN", "value": p}),
            R::Sym(s) => json!({"type": "SYMBOL", "name": s}),
            R::Seq(v) => json!({"type": "SEQ", "members": v.iter().map(|x| x.to_json()).collect::<Vec<_>>()}),
            R::Choice(v) => json!({"type": "CHOICE", "members": v.iter().map(|x| x.to_json()).collect::<Vec<_>>()}),
            R::Repeat(x) => json!({"type": "REPEAT", "content": x.to_json()}),
            R::Repeat1(x) => json!({"type": "REPEAT1", "content": x.to_json()}),
            R::Field(n, x) => json!({"type": "FIELD", "name": n, "content": x.to_json()}),
            R::Alias { content, value, named } => json!({"type": "ALIAS", "content": content.to_json(), "named": named, "value": value}),
            R::Prec { kind, value, content } => json!({"type": kind, "value": value, "content": content.to_json()}),
            R::Token(x) => json!({"type": "TOKEN", "content": x.to_json()}),
        }
    }
}

impl G {
    pub fn to_json(&self) -> String {
        let mut rules = serde_json::Map::new();
        for (n, r) in &self.rules {
            rules.insert(n.clone(), r.to_json());
        }
        let v = json!({
            "name": self.name,
            "word": self.word,
            "rules": Value::Object(rules),
            "extras": self.extras.iter().map(|x| x.to_json()).collect::<Vec<_>>(),
            "conflicts": self.conflicts,
            "precedences": [],
            "externals": [],
            "inline": self.inline,
            "supertypes": self.supertypes,
            "reserved": {},
        });
        let mut v = v;
        if self.word.is_none() {
            v.as_object_mut().unwrap().remove("word");
        }
        serde_json::to_string_pretty(&v).unwrap()
    }
    pub fn rule(&self, name: &str) -> Option<&R> {
        self.rules.iter().find(|(n, _)| n == name).map(|(_, r)| r)
    }
    pub fn is_hidden(&self, name: &str) -> bool {
        name.starts_with('_') || self.inline.iter().any(|x| x == name)
    }
}

pub const TERMINALS: &[&str] = &["a", "b", "c", "d", "e", "f", "+", "*", "(", ")", ",", ";", "=", "!"];

pub struct CfgFeatures {
    pub hidden: bool,
    pub inline: bool,
    pub alias: bool,
    pub field: bool,
    pub repeat: bool,
    pub recursive: bool,
}

/// Random conflict-free-by-construction CFG ("predictive": every alternative starts with its own literal,
/// repeats and optionals are followed by a closing literal that cannot start their content), with hidden and
/// inlined rules, aliases and fields. `wild` drops the construction discipline (the generator may then reject it).
pub fn gen_cfg(t: &mut Tape, name: &str, wild: bool) -> (G, CfgFeatures) {
    let n_rules = 2 + t.below(6);
    let n_terms = 3 + t.below(4);
    let letters: Vec<String> = TERMINALS[..6].iter().take(n_terms).map(|s| s.to_string()).collect();
    let mut feats = CfgFeatures { hidden: false, inline: false, alias: false, field: false, repeat: false, recursive: false };
    // rule names: r0 is the start rule; some later rules are hidden (_hK)
    let mut names: Vec<String> = vec![];
    let mut inline = vec![];
    for k in 0..n_rules {
        if k > 0 && t.pct(22) {
            names.push(format!("_h{k}"));
            feats.hidden = true;
        } else {
            names.push(format!("r{k}"));
        }
    }
    let mut rules: Vec<(String, R)> = vec![];
    let mut field_id = 0;
    for k in 0..n_rules {
        // alternatives, each introduced by a distinct literal
        let n_alt = 1 + t.weighted(&[45, 35, 20]);
        let mut starts: Vec<String> = letters.clone();
        let mut alts = vec![];
        for alt_index in 0..n_alt.min(starts.len()) {
            // the first alternative of every rule terminates: literals, forward references, zero-able repeats only
            let terminating = alt_index == 0;
            let lead = starts.remove(t.below(starts.len()));
            let mut seq = vec![R::Str(lead.clone())];
            // at least one part: a rule that is a lone string literal is turned into a token by the generator
            let n_parts = 1 + t.weighted(&[45, 35, 20]);
            for _ in 0..n_parts {
                // a part: symbol reference (to a later rule, or any rule when bracketed), a literal, a bracketed repeat, an optional
                let part = match t.weighted(&[35, 20, 25, 20]) {
                    0 => {
                        // reference: forward references keep the grammar non-left-recursive; recursion goes through brackets
                        let target = if k + 1 < n_rules && (terminating || t.pct(60)) { k + 1 + t.below(n_rules - k - 1) } else { t.below(n_rules) };
                        if terminating && target <= k {
                            seq.push(R::Str(t.pick(&letters).clone()));
                            continue;
                        }
                        let mut r = R::Sym(names[target].clone());
                        if target <= k {
                            feats.recursive = true;
                            r = R::Seq(vec![R::Str("(".into()), r, R::Str(")".into())]);
                        }
                        if t.pct(25) && !names[target].starts_with('_') {
                            feats.alias = true;
                            let named = t.pct(60);
                            // a third of the named aliases reuse the name of ANOTHER visible rule (two rules, one node type)
                            let others: Vec<&String> = names.iter().enumerate().filter(|(j, n)| *j != target && *j != 0 && !n.starts_with('_')).map(|(_, n)| n).collect();
                            let value = if named && !others.is_empty() && t.pct(35) { (*t.pick(&others)).clone() } else if named { format!("al{k}") } else { format!("AL{k}") };
                            r = wrap_alias(r, value, named);
                        } else if t.pct(30) && !names[target].starts_with('_') {
                            feats.field = true;
                            field_id += 1;
                            r = wrap_field(r, format!("f{}", field_id % 3));
                        }
                        r
                    }
                    1 => {
                        let l = R::Str(t.pick(&letters).clone());
                        if t.pct(30) {
                            feats.field = true;
                            field_id += 1;
                            R::Field(format!("f{}", field_id % 3), Box::new(l))
                        } else if t.pct(20) {
                            feats.alias = true;
                            R::Alias { content: Box::new(l), value: format!("lit{k}"), named: t.pct(50) }
                        } else {
                            l
                        }
                    }
                    2 => {
                        // bracketed repeat of a symbol: "(" repeat(sym) ")" - the closer never starts a rule
                        feats.repeat = true;
                        let target = t.below(n_rules);
                        if target <= k {
                            feats.recursive = true;
                        }
                        let inner = R::Sym(names[target].clone());
                        let rep = if t.pct(50) || (terminating && target <= k) { R::Repeat(Box::new(inner)) } else { R::Repeat1(Box::new(inner)) };
                        R::Seq(vec![R::Str("(".into()), rep, R::Str(")".into())])
                    }
                    _ => {
                        // optional symbol followed by a separator literal that starts no rule
                        let target = if k + 1 < n_rules { k + 1 + t.below(n_rules - k - 1) } else { k };
                        if target == k {
                            R::Str(";".into())
                        } else {
                            R::Seq(vec![opt(R::Sym(names[target].clone())), R::Str(";".into())])
                        }
                    }
                };
                seq.push(part);
            }
            if wild && t.pct(40) {
                // break the discipline: drop the leading literal or add an unguarded repeat
                if t.pct(50) && seq.len() > 1 {
                    seq.remove(0);
                } else {
                    seq.push(R::Repeat(Box::new(R::Sym(names[t.below(n_rules)].clone()))));
                }
            }
            alts.push(if seq.len() == 1 { seq.pop().unwrap() } else { R::Seq(seq) });
        }
        let mut body = if alts.len() == 1 { alts.pop().unwrap() } else { R::Choice(alts) };
        if let R::Str(s) = &body {
            // a rule that is a lone string literal becomes a token or a wrapper depending on other uses of the string: avoided
            body = R::Seq(vec![R::Str(s.clone()), R::Str(";".into())]);
        }
        rules.push((names[k].clone(), body));
    }
    // two hidden unit rules over the same visible rule, used behind a common prefix and told apart by the next token
    // only (`U _ua x | U _ub y` with `_ua -> rJ`, `_ub -> rJ`): exercises unit-reduction elimination
    if n_rules >= 2 && letters.len() >= 2 && t.pct(30) {
        let j = 1 + t.below(n_rules - 1);
        if !names[j].starts_with('_') {
            rules.push(("_ua".to_string(), R::Sym(names[j].clone())));
            rules.push(("_ub".to_string(), R::Sym(names[j].clone())));
            let extra1 = R::Seq(vec![R::Str("U".into()), R::Sym("_ua".into()), R::Str(letters[0].clone())]);
            let extra2 = R::Seq(vec![R::Str("U".into()), R::Sym("_ub".into()), R::Str(letters[1].clone())]);
            let start = std::mem::replace(&mut rules[0].1, R::Str(String::new()));
            rules[0].1 = match start {
                R::Choice(mut v) => {
                    v.push(extra1);
                    v.push(extra2);
                    R::Choice(v)
                }
                other => R::Choice(vec![other, extra1, extra2]),
            };
            feats.hidden = true;
        }
    }
    // inline some non-start, non-hidden rules that are referenced - never a rule that can reach itself
    // (the generator expands inlined rules textually and does not terminate on recursive ones)
    fn refs(r: &R, out: &mut Vec<String>) {
        match r {
            R::Sym(s) => out.push(s.clone()),
            R::Seq(v) | R::Choice(v) => v.iter().for_each(|x| refs(x, out)),
            R::Repeat(x) | R::Repeat1(x) | R::Token(x) | R::Field(_, x) => refs(x, out),
            R::Alias { content, .. } | R::Prec { content, .. } => refs(content, out),
            _ => {}
        }
    }
    let reaches_itself = |k: usize| -> bool {
        let mut seen: Vec<String> = vec![];
        let mut stack: Vec<String> = vec![];
        refs(&rules[k].1, &mut stack);
        while let Some(s) = stack.pop() {
            if s == names[k] {
                return true;
            }
            if seen.contains(&s) {
                continue;
            }
            seen.push(s.clone());
            if let Some((_, body)) = rules.iter().find(|(n, _)| *n == s) {
                refs(body, &mut stack);
            }
        }
        false
    };
    for k in 1..n_rules {
        if !names[k].starts_with('_') && t.pct(20) && !reaches_itself(k) {
            inline.push(names[k].clone());
            feats.inline = true;
        }
    }
    // inlined rules must not be aliased/fielded targets in this generator (kept simple): strip such wrappers
    let inl = inline.clone();
    for (_, r) in rules.iter_mut() {
        strip_wrappers_for(r, &inl);
    }
    let g = G { name: name.to_string(), rules, extras: vec![R::Pat("\\s".into())], inline, supertypes: vec![], conflicts: vec![], word: None };
    (g, feats)
}

fn wrap_alias(r: R, value: String, named: bool) -> R {
    match r {
        R::Seq(mut v) if v.len() == 3 => {
            let inner = v.remove(1);
            R::Seq(vec![v.remove(0), R::Alias { content: Box::new(inner), value, named }, v.remove(0)])
        }
        other => R::Alias { content: Box::new(other), value, named },
    }
}
fn wrap_field(r: R, name: String) -> R {
    match r {
        R::Seq(mut v) if v.len() == 3 => {
            let inner = v.remove(1);
            R::Seq(vec![v.remove(0), R::Field(name, Box::new(inner)), v.remove(0)])
        }
        other => R::Field(name, Box::new(other)),
    }
}

fn strip_wrappers_for(r: &mut R, inl: &[String]) {
    let replace = match r {
        R::Alias { content, .. } | R::Field(_, content) => {
            if let R::Sym(s) = &**content {
                if inl.iter().any(|x| x == s) {
                    Some((**content).clone())
                } else {
                    None
                }
            } else {
                None
            }
        }
        _ => None,
    };
    if let Some(x) = replace {
        *r = x;
        return;
    }
    match r {
        R::Seq(v) | R::Choice(v) => v.iter_mut().for_each(|x| strip_wrappers_for(x, inl)),
        R::Repeat(x) | R::Repeat1(x) | R::Token(x) => strip_wrappers_for(x, inl),
        R::Field(_, x) => strip_wrappers_for(x, inl),
        R::Alias { content, .. } => strip_wrappers_for(content, inl),
        R::Prec { content, .. } => strip_wrappers_for(content, inl),
        _ => {}
    }
}

/// operator-table grammar: expr := atom | "(" expr ")" | prefix/binary/postfix operators with levels
pub struct OpLevel {
    pub prec: i32,
    /// "left" | "right"
    pub assoc: &'static str,
    pub binary: Vec<String>,
    pub prefix: Vec<String>,
    pub postfix: Vec<String>,
}

pub fn gen_op_grammar(t: &mut Tape, name: &str) -> (G, Vec<OpLevel>) {
    let n_levels = 1 + t.below(5);
    let mut pool: Vec<&str> = vec!["+", "-", "*", "/", "^", "<", "=", "&", "|", "%"];
    let mut pre_pool: Vec<&str> = vec!["!", "~", "@"];
    let mut post_pool: Vec<&str> = vec!["?", "++", "'"];
    let mut levels = vec![];
    let base: i32 = *t.pick(&[1i32, 0, -1, -2, 0, 1]);
    for l in 0..n_levels {
        let assoc = if t.pct(55) { "left" } else { "right" };
        let mut binary = vec![];
        for _ in 0..1 + t.below(2) {
            if !pool.is_empty() {
                binary.push(pool.remove(t.below(pool.len())).to_string());
            }
        }
        let mut prefix = vec![];
        let mut postfix = vec![];
        if t.pct(25) && !pre_pool.is_empty() {
            prefix.push(pre_pool.remove(t.below(pre_pool.len())).to_string());
        }
        if t.pct(20) && !post_pool.is_empty() {
            postfix.push(post_pool.remove(t.below(post_pool.len())).to_string());
        }
        // precedence values include 0 (what a bare prec.left(rule) carries) and negative numbers
        levels.push(OpLevel { prec: (l as i32 + base) * 10, assoc, binary, prefix, postfix });
    }
    let e = || R::Sym("expr".into());
    let mut alts = vec![R::Sym("atom".into()), R::Sym("paren".into())];
    let mut rules: Vec<(String, R)> = vec![];
    let mut bin_alts = vec![];
    let mut un_alts = vec![];
    let mut post_alts = vec![];
    for lv in &levels {
        let kind = if lv.assoc == "left" { "PREC_LEFT" } else { "PREC_RIGHT" };
        for op in &lv.binary {
            bin_alts.push(R::Prec { kind, value: lv.prec, content: Box::new(R::Seq(vec![R::Field("left".into(), Box::new(e())), R::Field("op".into(), Box::new(R::Str(op.clone()))), R::Field("right".into(), Box::new(e()))])) });
        }
        for op in &lv.prefix {
            un_alts.push(R::Prec { kind: "PREC", value: lv.prec + 5, content: Box::new(R::Seq(vec![R::Field("op".into(), Box::new(R::Str(op.clone()))), R::Field("arg".into(), Box::new(e()))])) });
        }
        for op in &lv.postfix {
            post_alts.push(R::Prec { kind: "PREC", value: lv.prec + 7, content: Box::new(R::Seq(vec![R::Field("arg".into(), Box::new(e())), R::Field("op".into(), Box::new(R::Str(op.clone())))])) });
        }
    }
    if !bin_alts.is_empty() {
        alts.push(R::Sym("binary".into()));
    }
    if !un_alts.is_empty() {
        alts.push(R::Sym("prefix".into()));
    }
    if !post_alts.is_empty() {
        alts.push(R::Sym("postfix".into()));
    }
    rules.push(("program".into(), R::Repeat(Box::new(R::Seq(vec![e(), R::Str(";".into())])))));
    rules.push(("expr".into(), R::Choice(alts)));
    rules.push(("atom".into(), R::Pat("[a-z0-9]".into())));
    rules.push(("paren".into(), R::Seq(vec![R::Str("(".into()), e(), R::Str(")".into())])));
    let ch = |v: Vec<R>| if v.len() == 1 { v.into_iter().next().unwrap() } else { R::Choice(v) };
    if !bin_alts.is_empty() {
        rules.push(("binary".into(), ch(bin_alts)));
    }
    if !un_alts.is_empty() {
        rules.push(("prefix".into(), ch(un_alts)));
    }
    if !post_alts.is_empty() {
        rules.push(("postfix".into(), ch(post_alts)));
    }
    let g = G { name: name.to_string(), rules, extras: vec![R::Pat("\\s".into())], inline: vec![], supertypes: vec!["expr".into()], conflicts: vec![], word: None };
    (g, levels)
}
