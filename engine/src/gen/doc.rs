//! Document generators: the six byte classes over a zoo language.
use crate::gen::sentence::{render_tokens, SentenceGen, Tok};
use crate::lang::Lang;
use crate::tape::Tape;

#[derive(Clone, Copy, PartialEq, Eq, Debug)]
pub enum DocClass {
    Sentence,
    Mutated,
    RandomBytes,
    Pathological,
    Empty,
    Huge,
}

impl DocClass {
    pub fn name(&self) -> &'static str {
        match self {
            DocClass::Sentence => "doc:sentence",
            DocClass::Mutated => "doc:mutated",
            DocClass::RandomBytes => "doc:random_bytes",
            DocClass::Pathological => "doc:pathological",
            DocClass::Empty => "doc:empty",
            DocClass::Huge => "doc:huge",
        }
    }
}

pub fn seps_of(lang: &Lang) -> Vec<String> {
    let s = lang.meta_strs("seps");
    if s.is_empty() {
        vec![" ".into(), "\n".into(), "  ".into(), "\t".into(), "\r\n".into()]
    } else {
        s
    }
}

/// token-level sentence of about `budget` tokens
pub fn sentence_tokens(lang: &Lang, t: &mut Tape, budget: u32) -> Vec<Tok> {
    let g = SentenceGen::new(&lang.grammar, &lang.meta);
    let start = g.start.to_string();
    let mut toks = Vec::new();
    // the start rule is usually a repeat: derive several times until budget is used
    let mut guard = 0;
    let repeat_start = lang.meta_bool("start_is_repeat");
    loop {
        let mut part = g.derive(t, &start, budget.saturating_sub(toks.len() as u32).min(60));
        toks.append(&mut part);
        guard += 1;
        if !repeat_start || toks.len() as u32 >= budget || guard > 400 {
            break;
        }
    }
    toks
}

pub fn fragment_tokens(lang: &Lang, t: &mut Tape, budget: u32) -> Vec<Tok> {
    let g = SentenceGen::new(&lang.grammar, &lang.meta);
    let frs = lang.meta_strs("fragment_rules");
    let rule = if frs.is_empty() { g.start.to_string() } else { t.pick(&frs).clone() };
    g.derive(t, &rule, budget)
}

pub fn render(lang: &Lang, toks: &[Tok], t: &mut Tape) -> Vec<u8> {
    if let Some(f) = custom_renderer(lang) {
        return f(lang, toks, t);
    }
    let seps = seps_of(lang);
    let glue = lang.meta_strs("glue");
    render_tokens(toks, t, &seps, &glue, 40).into_bytes()
}

type Renderer = fn(&Lang, &[Tok], &mut Tape) -> Vec<u8>;
fn custom_renderer(_lang: &Lang) -> Option<Renderer> {
    None
}

pub fn budget_from_tape(t: &mut Tape) -> u32 {
    match t.weighted(&[55, 30, 12, 3]) {
        0 => t.range(1, 30) as u32,
        1 => t.range(30, 150) as u32,
        2 => t.range(150, 800) as u32,
        _ => t.range(800, 6000) as u32,
    }
}

pub fn sentence(lang: &Lang, t: &mut Tape) -> Vec<u8> {
    if let Some(d) = crate::gen::custom::custom_doc(lang, t) {
        return d;
    }
    let b = budget_from_tape(t);
    let toks = sentence_tokens(lang, t, b);
    render(lang, &toks, t)
}

pub fn literals_of(lang: &Lang) -> Vec<String> {
    fn walk(v: &serde_json::Value, out: &mut Vec<String>) {
        match v {
            serde_json::Value::Object(o) => {
                if o.get("type").and_then(|x| x.as_str()) == Some("STRING") {
                    if let Some(s) = o.get("value").and_then(|x| x.as_str()) {
                        if !out.iter().any(|x| x == s) {
                            out.push(s.to_string());
                        }
                    }
                }
                for (_, x) in o {
                    walk(x, out);
                }
            }
            serde_json::Value::Array(a) => {
                for x in a {
                    walk(x, out);
                }
            }
            _ => {}
        }
    }
    let mut out = vec![];
    walk(&lang.grammar["rules"], &mut out);
    out
}

pub fn mutated(lang: &Lang, t: &mut Tape) -> Vec<u8> {
    let b = budget_from_tape(t).min(400);
    let mut toks = sentence_tokens(lang, t, b);
    let lits = literals_of(lang);
    let n = 1 + t.below(4);
    for _ in 0..n {
        if toks.is_empty() {
            break;
        }
        let i = t.below(toks.len());
        match t.below(5) {
            0 => {
                toks.remove(i);
            }
            1 => {
                let x = toks[i].clone();
                toks.insert(i, x);
            }
            2 => {
                let j = t.below(toks.len());
                toks.swap(i, j);
            }
            3 => {
                if !lits.is_empty() {
                    toks.insert(i, Tok { text: t.pick(&lits).clone(), immediate: false });
                }
            }
            _ => {
                if !lits.is_empty() {
                    toks[i] = Tok { text: t.pick(&lits).clone(), immediate: false };
                }
            }
        }
    }
    let mut bytes = if let Some(d) = crate::gen::custom::custom_doc(lang, t) { d } else { render(lang, &toks, t) };
    // byte-level damage in half of the cases
    if t.pct(50) && !bytes.is_empty() {
        let k = 1 + t.below(3);
        for _ in 0..k {
            if bytes.is_empty() {
                break;
            }
            let i = t.below(bytes.len());
            match t.below(4) {
                0 => {
                    bytes.remove(i);
                }
                1 => bytes[i] = t.u8(),
                2 => bytes.insert(i, *t.pick(b"(){};\"'\\/*#@\n \x00\xff\xc3")),
                _ => {
                    let j = t.below(bytes.len());
                    let (a, b) = (i.min(j), i.max(j));
                    if b - a < 40 {
                        bytes.drain(a..b);
                    }
                }
            }
        }
    }
    bytes
}

pub fn random_bytes(lang: &Lang, t: &mut Tape) -> Vec<u8> {
    let n = match t.weighted(&[50, 40, 10]) {
        0 => t.below(16),
        1 => t.below(200),
        _ => t.below(1500),
    };
    let lits = literals_of(lang);
    let mode = t.below(3);
    let mut out = Vec::new();
    while out.len() < n {
        match mode {
            0 => out.push(t.u8()),
            1 => {
                // printable soup
                out.push(*t.pick(b"abxyz019 \n\t(){}[];,.=+-*/<>\"'#@\\_"));
            }
            _ => {
                // literal soup with random glue
                if !lits.is_empty() && t.pct(70) {
                    out.extend_from_slice(t.pick(&lits).as_bytes());
                } else {
                    out.push(t.u8());
                }
                if t.pct(50) {
                    out.push(b' ');
                }
            }
        }
    }
    out
}

pub fn pathological(lang: &Lang, t: &mut Tape) -> Vec<u8> {
    let base = if t.pct(70) { let toks = sentence_tokens(lang, t, 20); render(lang, &toks, t) } else { Vec::new() };
    let mut out = base;
    let n = 1 + t.below(4);
    for _ in 0..n {
        let frag: &[u8] = match t.below(14) {
            0 => b"\x00",
            1 => b"\xef\xbb\xbf",
            2 => b"\r",
            3 => b"\r\n",
            4 => b"\xc0\xaf",
            5 => b"\xe2\x82",
            6 => b"\xed\xa0\x80",
            7 => b"\xf4\x90\x80\x80",
            8 => b"\xff",
            9 => b"\xf0\x9f\x98\x80",
            10 => "é".as_bytes(),
            11 => b"\x0b\x0c",
            12 => b"\xc3",
            _ => "\u{2028}".as_bytes(),
        };
        let pos = match t.below(3) {
            0 => 0,
            1 => out.len(),
            _ => t.below(out.len() + 1),
        };
        for (k, b) in frag.iter().enumerate() {
            out.insert(pos + k, *b);
        }
    }
    out
}

pub fn huge(lang: &Lang, t: &mut Tape) -> Vec<u8> {
    let shapes = lang.meta.get("huge").and_then(|v| v.as_array()).cloned().unwrap_or_default();
    if shapes.is_empty() {
        let nb = 3000 + t.below(6000) as u32;
        let toks = sentence_tokens(lang, t, nb);
        return render(lang, &toks, t);
    }
    let sh = t.pick(&shapes).clone();
    let prefix = sh["prefix"].as_str().unwrap_or("");
    let open = sh["open"].as_str().unwrap_or("");
    let item = sh["item"].as_str().unwrap_or("");
    let close = sh["close"].as_str().unwrap_or("");
    let suffix = sh["suffix"].as_str().unwrap_or("");
    let max = sh["max"].as_u64().unwrap_or(20000) as usize;
    let n = match t.weighted(&[40, 40, 20]) {
        0 => t.range(200, 600),
        1 => t.range(600, 3000),
        _ => t.range(3000, max.max(3001)),
    };
    let mut s = String::new();
    s.push_str(prefix);
    for _ in 0..n {
        s.push_str(open);
    }
    if open.is_empty() {
        for _ in 0..n {
            s.push_str(item);
        }
    } else {
        s.push_str(item);
    }
    for _ in 0..n {
        s.push_str(close);
    }
    s.push_str(suffix);
    s.into_bytes()
}

pub fn gen_class(t: &mut Tape, weights: &[u32; 6]) -> DocClass {
    match t.weighted(weights) {
        0 => DocClass::Sentence,
        1 => DocClass::Mutated,
        2 => DocClass::RandomBytes,
        3 => DocClass::Pathological,
        4 => DocClass::Empty,
        _ => DocClass::Huge,
    }
}

pub fn gen_doc(lang: &Lang, class: DocClass, t: &mut Tape) -> Vec<u8> {
    match class {
        DocClass::Sentence => sentence(lang, t),
        DocClass::Mutated => mutated(lang, t),
        DocClass::RandomBytes => random_bytes(lang, t),
        DocClass::Pathological => pathological(lang, t),
        DocClass::Empty => Vec::new(),
        DocClass::Huge => huge(lang, t),
    }
}
