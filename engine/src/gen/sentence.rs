//! Random derivations directly over grammar.json (own interpreter of the rule tree).
use crate::tape::Tape;
use serde_json::Value;
use std::collections::HashMap;

#[derive(Clone, Debug)]
pub struct Tok {
    pub text: String,
    pub immediate: bool,
}

pub struct SentenceGen<'g> {
    pub grammar: &'g Value,
    rules: HashMap<&'g str, &'g Value>,
    min_cost: HashMap<&'g str, u32>,
    samples: HashMap<String, Vec<String>>,
    pub start: &'g str,
}

const INF: u32 = 1_000_000;

impl<'g> SentenceGen<'g> {
    pub fn new(grammar: &'g Value, meta: &Value) -> Self {
        let mut rules = HashMap::new();
        let mut start = "";
        if let Some(obj) = grammar["rules"].as_object() {
            for (i, (k, v)) in obj.iter().enumerate() {
                if i == 0 {
                    start = k.as_str();
                }
                rules.insert(k.as_str(), v);
            }
        }
        let mut samples = HashMap::new();
        if let Some(o) = meta.get("samples").and_then(|s| s.as_object()) {
            for (k, v) in o {
                let xs: Vec<String> = v.as_array().map(|a| a.iter().filter_map(|x| x.as_str().map(|s| s.to_string())).collect()).unwrap_or_default();
                if !xs.is_empty() {
                    samples.insert(k.clone(), xs);
                }
            }
        }
        let mut g = SentenceGen { grammar, rules, min_cost: HashMap::new(), samples, start };
        g.compute_min_costs();
        g
    }

    fn compute_min_costs(&mut self) {
        let names: Vec<&'g str> = self.rules.keys().copied().collect();
        for n in &names {
            self.min_cost.insert(n, INF);
        }
        loop {
            let mut changed = false;
            for n in &names {
                let c = if self.samples.contains_key(*n) { 1 } else { self.cost(self.rules[n]) };
                if c < self.min_cost[n] {
                    self.min_cost.insert(n, c);
                    changed = true;
                }
            }
            if !changed {
                break;
            }
        }
    }

    fn cost(&self, r: &Value) -> u32 {
        match r["type"].as_str().unwrap_or("") {
            "BLANK" => 0,
            "STRING" | "PATTERN" | "TOKEN" | "IMMEDIATE_TOKEN" => 1,
            "SYMBOL" => {
                let n = r["name"].as_str().unwrap_or("");
                *self.min_cost.get(n).unwrap_or(&1) // externals cost 1
            }
            "SEQ" => r["members"].as_array().map(|m| m.iter().map(|x| self.cost(x)).fold(0u32, |a, b| (a + b).min(INF))).unwrap_or(0),
            "CHOICE" => r["members"].as_array().map(|m| m.iter().map(|x| self.cost(x)).min().unwrap_or(0)).unwrap_or(0),
            "REPEAT" => 0,
            "REPEAT1" => self.cost(&r["content"]),
            _ => self.cost(&r["content"]),
        }
    }

    /// generate a token sequence from `rule` with roughly `budget` tokens
    pub fn derive(&self, t: &mut Tape, rule: &str, budget: u32) -> Vec<Tok> {
        let mut out = Vec::new();
        let mut b = budget as i64;
        if let Some(r) = self.rules.get(rule) {
            if let Some(s) = self.samples.get(rule) {
                out.push(Tok { text: t.pick(s).clone(), immediate: false });
            } else {
                self.expand(r, t, &mut b, &mut out, 0);
            }
        }
        out
    }

    fn expand(&self, r: &'g Value, t: &mut Tape, budget: &mut i64, out: &mut Vec<Tok>, depth: u32) {
        if depth > 400 || out.len() > 200_000 {
            // a grammar without a terminating derivation on this path
            return;
        }
        let ty = r["type"].as_str().unwrap_or("");
        match ty {
            "BLANK" => {}
            "STRING" => {
                out.push(Tok { text: r["value"].as_str().unwrap_or("").to_string(), immediate: false });
                *budget -= 1;
            }
            "PATTERN" => {
                out.push(Tok { text: sample_pattern(r["value"].as_str().unwrap_or(""), t), immediate: false });
                *budget -= 1;
            }
            "TOKEN" | "IMMEDIATE_TOKEN" => {
                let mut s = String::new();
                self.lex_sample(&r["content"], t, &mut s, 0);
                out.push(Tok { text: s, immediate: ty == "IMMEDIATE_TOKEN" });
                *budget -= 1;
            }
            "SYMBOL" => {
                let n = r["name"].as_str().unwrap_or("");
                if let Some(s) = self.samples.get(n) {
                    let immediate = self.rules.get(n).map(|r| is_immediate(r)).unwrap_or(false);
                    out.push(Tok { text: t.pick(s).clone(), immediate });
                    *budget -= 1;
                } else if let Some(rr) = self.rules.get(n) {
                    self.expand(rr, t, budget, out, depth + 1);
                } else {
                    // external token without a sample: contributes nothing
                }
            }
            "SEQ" => {
                if let Some(m) = r["members"].as_array() {
                    for x in m {
                        self.expand(x, t, budget, out, depth);
                    }
                }
            }
            "CHOICE" => {
                if let Some(m) = r["members"].as_array() {
                    if m.is_empty() {
                        return;
                    }
                    let tight = *budget <= 0 || depth > 40;
                    if tight {
                        // cheapest alternative
                        let mut best = 0;
                        let mut bc = INF + 1;
                        for (i, x) in m.iter().enumerate() {
                            let c = self.cost(x);
                            if c < bc {
                                bc = c;
                                best = i;
                            }
                        }
                        // consume a tape byte anyway to keep decoding aligned
                        let _ = t.u8();
                        self.expand(&m[best], t, budget, out, depth);
                    } else {
                        let i = t.below(m.len());
                        self.expand(&m[i], t, budget, out, depth);
                    }
                }
            }
            "REPEAT" | "REPEAT1" => {
                let min = if ty == "REPEAT1" { 1 } else { 0 };
                let n = if *budget <= 0 || depth > 40 {
                    let _ = t.u8();
                    min
                } else {
                    let k = t.weighted(&[30, 30, 20, 10, 6, 4]);
                    let k = if k == 5 { 5 + t.below(12) } else { k };
                    k.max(min)
                };
                for _ in 0..n {
                    self.expand(&r["content"], t, budget, out, depth);
                }
            }
            _ => {
                // ALIAS, FIELD, PREC*, RESERVED ...
                if r.get("content").is_some() {
                    self.expand(&r["content"], t, budget, out, depth);
                }
            }
        }
    }

    fn lex_sample(&self, r: &Value, t: &mut Tape, s: &mut String, depth: u32) {
        match r["type"].as_str().unwrap_or("") {
            "STRING" => s.push_str(r["value"].as_str().unwrap_or("")),
            "PATTERN" => s.push_str(&sample_pattern(r["value"].as_str().unwrap_or(""), t)),
            "SEQ" => {
                for x in r["members"].as_array().into_iter().flatten() {
                    self.lex_sample(x, t, s, depth + 1);
                }
            }
            "CHOICE" => {
                if let Some(m) = r["members"].as_array() {
                    if !m.is_empty() {
                        let i = t.below(m.len());
                        self.lex_sample(&m[i], t, s, depth + 1);
                    }
                }
            }
            "REPEAT" | "REPEAT1" => {
                let min = if r["type"] == "REPEAT1" { 1 } else { 0 };
                let n = t.below(3).max(min);
                for _ in 0..n {
                    self.lex_sample(&r["content"], t, s, depth + 1);
                }
            }
            "SYMBOL" => {
                let n = r["name"].as_str().unwrap_or("");
                if let Some(rr) = self.rules.get(n) {
                    if depth < 8 {
                        self.lex_sample(rr, t, s, depth + 1);
                    }
                }
            }
            "BLANK" => {}
            _ => {
                if r.get("content").is_some() {
                    self.lex_sample(&r["content"], t, s, depth + 1);
                }
            }
        }
    }
}

fn is_immediate(r: &Value) -> bool {
    match r["type"].as_str().unwrap_or("") {
        "IMMEDIATE_TOKEN" => true,
        "PREC" | "PREC_LEFT" | "PREC_RIGHT" | "PREC_DYNAMIC" | "ALIAS" | "FIELD" => is_immediate(&r["content"]),
        _ => false,
    }
}

/// sample a string matching a (tree-sitter flavoured) regex; used for input generation only
pub fn sample_pattern(pat: &str, t: &mut Tape) -> String {
    use regex_syntax::hir::{Class, Hir, HirKind};
    fn go(h: &Hir, t: &mut Tape, out: &mut String) {
        match h.kind() {
            HirKind::Empty | HirKind::Look(_) => {}
            HirKind::Literal(l) => out.push_str(&String::from_utf8_lossy(&l.0)),
            HirKind::Class(Class::Unicode(c)) => {
                let rs: Vec<_> = c.ranges().to_vec();
                if rs.is_empty() {
                    return;
                }
                // prefer early (ASCII) ranges on low tape values
                let r = rs[t.below(rs.len().min(6))];
                let span = (r.end() as u32 - r.start() as u32 + 1).min(26);
                let ch = char::from_u32(r.start() as u32 + t.below(span as usize) as u32).unwrap_or(r.start());
                out.push(ch);
            }
            HirKind::Class(Class::Bytes(c)) => {
                let rs: Vec<_> = c.ranges().to_vec();
                if rs.is_empty() {
                    return;
                }
                let r = rs[t.below(rs.len())];
                out.push((r.start() + t.below((r.end() - r.start()) as usize + 1) as u8) as char);
            }
            HirKind::Repetition(r) => {
                let min = r.min as usize;
                let max = r.max.map(|m| m as usize).unwrap_or(min + 4).min(min + 4);
                let n = t.range(min, max);
                for _ in 0..n {
                    go(&r.sub, t, out);
                }
            }
            HirKind::Capture(c) => go(&c.sub, t, out),
            HirKind::Concat(v) => {
                for x in v {
                    go(x, t, out);
                }
            }
            HirKind::Alternation(v) => {
                let i = t.below(v.len());
                go(&v[i], t, out);
            }
        }
    }
    let mut p = regex_syntax::ParserBuilder::new().unicode(true).utf8(false).build();
    match p.parse(pat) {
        Ok(h) => {
            let mut s = String::new();
            go(&h, t, &mut s);
            s
        }
        Err(_) => String::new(),
    }
}

/// Join tokens with separators. `seps` non-empty separators; `glue` tokens that may touch neighbours.
pub fn render_tokens(toks: &[Tok], t: &mut Tape, seps: &[String], glue: &[String], glue_pct: u32) -> String {
    let mut s = String::new();
    for (i, k) in toks.iter().enumerate() {
        if i > 0 && !k.immediate {
            let prev = &toks[i - 1].text;
            let can_glue = glue.iter().any(|g| g == prev || g == &k.text);
            if can_glue && t.pct(glue_pct) {
                // nothing
            } else if seps.is_empty() {
                s.push(' ');
            } else {
                // first separator heavily favoured
                let w = t.weighted(&[70, 30]);
                if w == 0 {
                    s.push_str(&seps[0]);
                } else {
                    let sp: &String = t.pick(seps);
                    s.push_str(sp);
                }
            }
        }
        s.push_str(&k.text);
    }
    s
}
