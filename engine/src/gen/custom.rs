//! Language-specific document generators (languages whose surface syntax is not a plain token stream).
use crate::lang::Lang;
use crate::tape::Tape;

pub fn custom_doc(_lang: &Lang, _t: &mut Tape) -> Option<Vec<u8>> {
    None
}
