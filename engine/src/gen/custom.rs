//! Language-specific document generators (languages whose surface syntax is not a plain token stream).
use crate::lang::{self, Lang};
use crate::tape::Tape;

pub fn custom_doc(lang: &Lang, t: &mut Tape) -> Option<Vec<u8>> {
    match lang.meta.get("custom").and_then(|v| v.as_str()) {
        Some("indent") => Some(indent_doc(t)),
        Some("heredoc") => Some(heredoc_doc(t)),
        Some("tmpl") => Some(tmpl_doc(t)),
        _ => None,
    }
}

fn expr(t: &mut Tape, depth: u32, s: &mut String) {
    let k = if depth > 3 { t.below(2) } else { t.weighted(&[35, 25, 20, 20]) };
    match k {
        0 => s.push_str(*t.pick(&["a", "b", "x", "foo", "y1", "é", "_t", "passed", "iff"])),
        1 => s.push_str(*t.pick(&["0", "1", "42", "100"])),
        2 => {
            s.push_str(*t.pick(&["f", "g", "foo"]));
            s.push('(');
            let n = t.below(3);
            for i in 0..n {
                if i > 0 {
                    s.push_str(", ");
                }
                expr(t, depth + 1, s);
            }
            s.push(')');
        }
        _ => {
            expr(t, depth + 1, s);
            s.push_str(*t.pick(&[" + ", " - ", " * ", " == ", "+", "*"]));
            expr(t, depth + 1, s);
        }
    }
}

fn indent_block(t: &mut Tape, depth: u32, ind: &str, out: &mut String, budget: &mut i32) {
    let n = 1 + t.below(4);
    for _ in 0..n {
        *budget -= 1;
        let nl = if t.pct(12) { "\r\n" } else { "\n" };
        if t.pct(8) && !out.is_empty() {
            // blank line (possibly with stray spaces)
            out.push_str(*t.pick(&["", "  ", "\t"]));
            out.push_str(nl);
        }
        let kind = if depth >= 6 || *budget <= 0 { t.below(2) } else { t.weighted(&[40, 10, 18, 10, 12, 10]) };
        out.push_str(ind);
        match kind {
            0 => {
                expr(t, 0, out);
                if t.pct(10) {
                    out.push_str("  ");
                }
                out.push_str(nl);
            }
            1 => {
                out.push_str("pass");
                out.push_str(nl);
            }
            _ => {
                let child = format!("{ind}{}", *t.pick(&["    ", "  ", " ", "        ", "\t"]));
                match kind {
                    2 | 5 => {
                        out.push_str("if ");
                        expr(t, 1, out);
                    }
                    3 => {
                        out.push_str("while ");
                        expr(t, 1, out);
                    }
                    _ => {
                        out.push_str("def ");
                        out.push_str(*t.pick(&["f", "g", "foo"]));
                        out.push_str(*t.pick(&["()", "(a)", "(a, b)"]));
                    }
                }
                out.push(':');
                out.push_str(nl);
                indent_block(t, depth + 1, &child, out, budget);
                if kind == 5 {
                    out.push_str(ind);
                    out.push_str("else:");
                    out.push_str(nl);
                    indent_block(t, depth + 1, &child, out, budget);
                }
            }
        }
    }
}

pub fn indent_doc(t: &mut Tape) -> Vec<u8> {
    let mut out = String::new();
    let mut budget = match t.weighted(&[60, 30, 10]) {
        0 => t.range(1, 8) as i32,
        1 => t.range(8, 40) as i32,
        _ => t.range(40, 400) as i32,
    };
    let mut guard = 0;
    while budget > 0 && guard < 500 {
        indent_block(t, 0, "", &mut out, &mut budget);
        guard += 1;
    }
    if t.pct(15) {
        // drop the final newline
        while out.ends_with('\n') || out.ends_with('\r') {
            out.pop();
        }
    }
    out.into_bytes()
}

pub fn heredoc_doc(t: &mut Tape) -> Vec<u8> {
    let mut out = String::new();
    let lines = match t.weighted(&[60, 30, 10]) {
        0 => t.range(1, 6),
        1 => t.range(6, 30),
        _ => t.range(30, 300),
    };
    let words = ["cat", "echo", "a", "b", "x1", "foo", "./run", "-v", "é", "EOF", "END"];
    for _ in 0..lines {
        let nl = if t.pct(10) { "\r\n" } else { "\n" };
        match t.weighted(&[45, 10, 45]) {
            0 => {
                let n = 1 + t.below(4);
                for i in 0..n {
                    if i > 0 {
                        out.push(' ');
                    }
                    if i > 0 && t.pct(15) {
                        out.push_str(*t.pick(&["'s'", "''", "'a b'", "'<<EOF'"]));
                    } else {
                        out.push_str(*t.pick(&words));
                    }
                }
                out.push_str(nl);
            }
            1 => out.push_str(nl),
            _ => {
                out.push_str(*t.pick(&["cat", "echo a", "x -v"]));
                let d = *t.pick(&["EOF", "END", "X", "_", "A_VERY_LONG_HEREDOC_DELIMITER_NAME_0123456789", "EOF2"]);
                out.push_str(*t.pick(&[" <<", " << ", "<<"]));
                out.push_str(d);
                out.push_str(nl);
                let n = t.below(5);
                for _ in 0..n {
                    out.push_str(*t.pick(&["body line", "  indented", "", "EOFX", " EOF", "cat <<EOF", "é ü", "END of it", "X"]));
                    if out.ends_with('X') && d == "X" {
                        out.push('.');
                    }
                    out.push('\n');
                }
                out.push_str(d);
                out.push_str(nl);
            }
        }
    }
    if t.pct(15) {
        while out.ends_with('\n') || out.ends_with('\r') {
            out.pop();
        }
    }
    out.into_bytes()
}

pub fn tmpl_doc(t: &mut Tape) -> Vec<u8> {
    let mini = lang::zoo("mini");
    let arith = lang::zoo("arith");
    let mut out: Vec<u8> = Vec::new();
    let parts = match t.weighted(&[60, 30, 10]) {
        0 => t.range(1, 5),
        1 => t.range(5, 20),
        _ => t.range(20, 120),
    };
    for _ in 0..parts {
        match t.weighted(&[40, 35, 25]) {
            0 => {
                out.extend_from_slice(t.pick(&["hello ", "<p>", "</p>\n", "text\nmore text\n", "a < b ", "é ", "\n", "100% ", "<b>x</b>"]).as_bytes());
            }
            1 => {
                out.extend_from_slice(b"<%");
                if t.pct(85) {
                    out.push(b' ');
                    let nb = 1 + t_small(t);
                    let toks = crate::gen::doc::sentence_tokens(mini, t, nb);
                    let mut code = crate::gen::doc::render(mini, &toks, t);
                    sanitize_code(&mut code);
                    out.extend_from_slice(&code);
                    out.push(b' ');
                }
                out.extend_from_slice(b"%>");
            }
            _ => {
                out.extend_from_slice(b"<%=");
                out.push(b' ');
                let toks = crate::gen::doc::fragment_tokens(arith, t, 6);
                let mut code = crate::gen::doc::render(arith, &toks, t);
                sanitize_code(&mut code);
                out.extend_from_slice(&code);
                out.extend_from_slice(b" %>");
            }
        }
    }
    out
}

fn t_small(t: &mut Tape) -> u32 {
    t.below(14) as u32
}

/// code regions must not contain the closing delimiter
fn sanitize_code(code: &mut Vec<u8>) {
    let mut i = 0;
    while i + 1 < code.len() {
        if code[i] == b'%' && code[i + 1] == b'>' {
            code[i + 1] = b' ';
        }
        i += 1;
    }
    if code.last() == Some(&b'%') {
        code.push(b' ');
    }
    if code.is_empty() {
        code.push(b';');
    }
}
