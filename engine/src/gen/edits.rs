//! Edit generation over the text model (positions and inserted text by class).
use crate::gen::doc;
use crate::lang::Lang;
use crate::model::text::{Edit, Text};
use crate::tape::Tape;

fn class_of(b: u8) -> u8 {
    if b.is_ascii_alphanumeric() || b == b'_' || b >= 0x80 {
        0
    } else if b == b' ' || b == b'\t' || b == b'\n' || b == b'\r' {
        1
    } else {
        2
    }
}

/// lexical boundaries (independent of tree-sitter): positions where the character class changes
pub fn boundaries(text: &[u8]) -> Vec<usize> {
    let mut v = vec![0];
    for i in 1..text.len() {
        let (a, b) = (class_of(text[i - 1]), class_of(text[i]));
        if a != b || a == 2 {
            v.push(i);
        }
    }
    if !text.is_empty() {
        v.push(text.len());
    }
    v
}

pub struct EditGen {
    /// stack of (inverse edit) for "undo" edits
    pub undo: Vec<Edit>,
}

pub struct GenEdit {
    pub edit: Edit,
    pub labels: Vec<&'static str>,
}

impl EditGen {
    pub fn new() -> Self {
        EditGen { undo: vec![] }
    }

    pub fn next(&mut self, lang: &Lang, text: &Text, t: &mut Tape) -> GenEdit {
        let len = text.len();
        let mut labels = vec![];
        // undo of the most recent edit (returns towards an earlier text)
        if !self.undo.is_empty() && t.pct(30) {
            let e = self.undo.pop().unwrap();
            if e.old_end <= len && e.start <= e.old_end {
                labels.push("edit:undo");
                return GenEdit { edit: e, labels };
            }
        }
        if t.pct(48) {
            if let Some(e) = valid_preserving(lang, text, t) {
                labels.push("edit:structure_preserving");
                let removed = text.bytes[e.start..e.old_end].to_vec();
                self.undo.push(Edit { start: e.start, old_end: e.start + e.inserted.len(), inserted: removed });
                if self.undo.len() > 16 {
                    self.undo.remove(0);
                }
                return GenEdit { edit: e, labels };
            }
        }
        let bs = boundaries(&text.bytes);
        // position class
        let pos_class = t.weighted(&[24, 20, 12, 10, 6, 8, 8, 12]);
        let mut start = match pos_class {
            0 => {
                labels.push("pos:boundary");
                *t.pick(&bs)
            }
            1 => {
                // inside a word
                labels.push("pos:inside_token");
                let mut p = t.below(len + 1);
                for _ in 0..8 {
                    if p > 0 && p < len && class_of(text.bytes[p - 1]) == 0 && class_of(text.bytes[p]) == 0 {
                        break;
                    }
                    p = t.below(len + 1);
                }
                p
            }
            2 => {
                labels.push("pos:lookahead");
                let b = *t.pick(&bs);
                (b + t.range(1, 3)).min(len)
            }
            3 => {
                labels.push("pos:whitespace");
                let mut p = t.below(len + 1);
                for _ in 0..8 {
                    if p < len && class_of(text.bytes[p]) == 1 {
                        break;
                    }
                    p = t.below(len + 1);
                }
                p
            }
            4 => {
                labels.push("pos:bof");
                0
            }
            5 => {
                labels.push("pos:eof");
                len
            }
            6 => {
                labels.push("pos:multibyte");
                let cands: Vec<usize> = (1..len).filter(|&i| text.bytes[i] & 0xC0 == 0x80).collect();
                if cands.is_empty() {
                    t.below(len + 1)
                } else {
                    *t.pick(&cands)
                }
            }
            _ => {
                labels.push("pos:line");
                let r = t.below(text.line_count());
                text.line_start(r)
            }
        };
        start = start.min(len);
        // action
        let action = t.weighted(&[40, 30, 30]); // insert, delete, replace
        let mut old_end = start;
        if action != 0 {
            let dl = match t.weighted(&[40, 25, 20, 15]) {
                0 => 1 + t.below(3),
                1 => {
                    // to next boundary
                    let nb = bs.iter().copied().find(|&b| b > start).unwrap_or(len);
                    nb - start
                }
                2 => {
                    // rest of line incl. newline
                    let row = text.point_of(start).row;
                    let le = if row + 1 < text.line_count() { text.line_start(row + 1) } else { len };
                    le - start
                }
                _ => t.below(40),
            };
            old_end = (start + dl).min(len);
        }
        let mut inserted = Vec::new();
        if action != 1 || old_end == start {
            match t.weighted(&[25, 25, 15, 8, 15, 12]) {
                0 => {
                    labels.push("ins:literal");
                    let lits = doc::literals_of(lang);
                    if !lits.is_empty() {
                        inserted = t.pick(&lits).clone().into_bytes();
                    }
                    if t.pct(50) {
                        inserted.insert(0, b' ');
                    }
                    if t.pct(50) {
                        inserted.push(b' ');
                    }
                }
                1 => {
                    labels.push("ins:fragment");
                    let frags = lang.meta_strs("fragments");
                    if !frags.is_empty() {
                        inserted = t.pick(&frags).clone().into_bytes();
                    } else {
                        let toks = doc::fragment_tokens(lang, t, 12);
                        inserted = doc::render(lang, &toks, t);
                    }
                    if frags.is_empty() && t.pct(70) {
                        inserted.insert(0, b' ');
                        inserted.push(b' ');
                    }
                    if t.pct(30) {
                        inserted.push(b'\n');
                    }
                }
                2 => {
                    labels.push("ins:whitespace");
                    let n = 1 + t.below(3);
                    for _ in 0..n {
                        inserted.extend_from_slice(*t.pick(&[&b" "[..], b"\n", b"\r\n", b"\t", b"\n\n"]));
                    }
                }
                3 => {
                    labels.push("ins:random");
                    let n = 1 + t.below(6);
                    inserted = t.bytes(n);
                }
                4 => {
                    labels.push("ins:word");
                    let w: &[&[u8]] = &[b"a", b"x1", b"foo", b"0", b"42", "é".as_bytes(), "λ".as_bytes(), b"_", b"if", b"bar_baz"];
                    inserted = t.pick(w).to_vec();
                }
                _ => {
                    labels.push("ins:copy");
                    if len > 0 {
                        let a = t.below(len);
                        let b = (a + 1 + t.below(30)).min(len);
                        inserted = text.bytes[a..b].to_vec();
                    }
                }
            }
        }
        if old_end == start && inserted.is_empty() {
            inserted = b" ".to_vec();
        }
        match (old_end > start, !inserted.is_empty()) {
            (false, true) => labels.push("act:insert"),
            (true, false) => labels.push("act:delete"),
            _ => labels.push("act:replace"),
        }
        let edit = Edit { start, old_end, inserted };
        // remember inverse
        let removed = text.bytes[edit.start..edit.old_end].to_vec();
        self.undo.push(Edit { start: edit.start, old_end: edit.start + edit.inserted.len(), inserted: removed });
        if self.undo.len() > 16 {
            self.undo.remove(0);
        }
        GenEdit { edit, labels }
    }
}

/// edits that usually keep a valid document valid: word replacement, duplicate whitespace,
/// whole-line insertion with the line's indentation, whole-line deletion
fn valid_preserving(lang: &Lang, text: &Text, t: &mut Tape) -> Option<Edit> {
    let b = &text.bytes;
    let len = b.len();
    // meta.json "toggles": [[marker, prefix], ...]: put `prefix` in front of an occurrence of `marker` or take it away
    // (switches the role of the token that follows while its own bytes and padding stay untouched)
    if let Some(tg) = lang.meta.get("toggles").and_then(|x| x.as_array()) {
        if !tg.is_empty() && t.pct(25) {
            let pair = t.pick(tg);
            if let (Some(marker), Some(prefix)) = (pair.get(0).and_then(|x| x.as_str()), pair.get(1).and_then(|x| x.as_str())) {
                let (m, pf) = (marker.as_bytes(), prefix.as_bytes());
                let occ: Vec<usize> = (0..len.saturating_sub(m.len() - 1)).filter(|&i| b[i..].starts_with(m)).collect();
                if !occ.is_empty() {
                    let at = *t.pick(&occ);
                    // the prefix may be separated from the marker by blanks/newlines
                    let mut ws = at;
                    while ws > 0 && (b[ws - 1] == b' ' || b[ws - 1] == b'\n') {
                        ws -= 1;
                    }
                    if ws >= pf.len() && &b[ws - pf.len()..ws] == pf {
                        return Some(Edit { start: ws - pf.len(), old_end: ws, inserted: vec![] });
                    }
                    return Some(Edit { start: ws, old_end: ws, inserted: pf.to_vec() });
                }
            }
        }
    }
    match t.weighted(&[35, 15, 35, 15]) {
        0 => {
            // replace a word by a word of the same kind
            let mut words: Vec<(usize, usize)> = vec![];
            let mut i = 0;
            while i < len {
                if class_of(b[i]) == 0 {
                    let s = i;
                    while i < len && class_of(b[i]) == 0 {
                        i += 1;
                    }
                    words.push((s, i));
                } else {
                    i += 1;
                }
            }
            if words.is_empty() {
                return None;
            }
            let lits = doc::literals_of(lang);
            for _ in 0..4 {
                let (s, e) = *t.pick(&words);
                let w = &b[s..e];
                if lits.iter().any(|l| l.as_bytes() == w) {
                    // a keyword: swap it for another alphabetic literal of the grammar (switches the production
                    // while the text around it stays the same)
                    let kws: Vec<&String> = lits.iter().filter(|l| l.bytes().all(|c| c.is_ascii_alphabetic()) && l.as_bytes() != w).collect();
                    if !kws.is_empty() && t.pct(60) {
                        let same: Vec<&&String> = kws.iter().filter(|l| l.len() == w.len()).collect();
                        let k = if !same.is_empty() && t.pct(60) { (*t.pick(&same)).as_str() } else { t.pick(&kws).as_str() };
                        return Some(Edit { start: s, old_end: e, inserted: k.as_bytes().to_vec() });
                    }
                    continue;
                }
                let digits = w.iter().all(|c| c.is_ascii_digit());
                let rep: &[u8] = if digits { *t.pick(&[&b"0"[..], b"7", b"12", b"345"]) } else { *t.pick(&[&b"a"[..], b"b", b"x1", b"foo", b"q_r", "\u{e9}".as_bytes()]) };
                return Some(Edit { start: s, old_end: e, inserted: rep.to_vec() });
            }
            None
        }
        1 => {
            // duplicate an inter-token space (not at a line start)
            let cands: Vec<usize> = (1..len).filter(|&i| b[i] == b' ' && b[i - 1] != b'\n' && b[i - 1] != b' ').collect();
            if cands.is_empty() {
                return None;
            }
            let p = *t.pick(&cands);
            Some(Edit { start: p, old_end: p, inserted: b" ".to_vec() })
        }
        2 => {
            // insert whole line(s) at a line start, carrying that line's indentation
            let frs = lang.meta_strs("line_fragments");
            if frs.is_empty() {
                return None;
            }
            let row = t.below(text.line_count());
            let ls = text.line_start(row);
            let mut ind = Vec::new();
            let mut k = ls;
            while k < len && (b[k] == b' ' || b[k] == b'\t') {
                ind.push(b[k]);
                k += 1;
            }
            let fr = t.pick(&frs).clone();
            let mut ins = Vec::new();
            for line in fr.split_inclusive('\n') {
                ins.extend_from_slice(&ind);
                ins.extend_from_slice(line.as_bytes());
            }
            if !ins.ends_with(b"\n") {
                ins.push(b'\n');
            }
            Some(Edit { start: ls, old_end: ls, inserted: ins })
        }
        _ => {
            // delete a whole line
            if text.line_count() < 2 {
                return None;
            }
            let row = t.below(text.line_count() - 1);
            Some(Edit { start: text.line_start(row), old_end: text.line_start(row + 1), inserted: vec![] })
        }
    }
}
