pub mod checks;
pub mod core;
pub mod drive;
pub mod gen;
pub mod lang;
pub mod model;
pub mod runner;
pub mod tape;
