//! Driving the parser: chunked input, progress-callback accounting.
use crate::tape::Tape;
use std::ops::ControlFlow;
use tree_sitter::{ParseOptions, Parser, Point, Tree};

#[derive(Clone, Debug)]
pub enum Chunking {
    Whole,
    Fixed(usize),
    Splits(Vec<usize>),
}

impl Chunking {
    pub fn gen(t: &mut Tape, len: usize) -> Chunking {
        match t.weighted(&[50, 25, 25]) {
            0 => Chunking::Whole,
            1 => Chunking::Fixed(*t.pick(&[1usize, 2, 3, 4, 5, 7, 8, 16, 64, 1024])),
            _ => {
                let n = 1 + t.below(6);
                let mut v: Vec<usize> = (0..n).map(|_| t.below(len + 1)).collect();
                v.sort();
                v.dedup();
                Chunking::Splits(v)
            }
        }
    }
    pub fn describe(&self) -> String {
        match self {
            Chunking::Whole => "whole".into(),
            Chunking::Fixed(k) => format!("fixed({k})"),
            Chunking::Splits(v) => format!("splits{v:?}"),
        }
    }
    pub fn is_chunked(&self) -> bool {
        !matches!(self, Chunking::Whole)
    }
    fn end_for(&self, byte: usize, len: usize) -> usize {
        match self {
            Chunking::Whole => len,
            Chunking::Fixed(k) => (byte + k).min(len),
            Chunking::Splits(v) => v.iter().copied().find(|&s| s > byte).unwrap_or(len).min(len),
        }
    }
}

#[derive(Default, Clone, Debug)]
pub struct DriveStats {
    pub callbacks: u64,
    pub reads: u64,
    pub bytes_served: u64,
    pub cancelled: bool,
}

/// Parse `text` (UTF-8 bytes, any content). `cb_limit`: cancel after that many progress callbacks.
pub fn parse(parser: &mut Parser, text: &[u8], old: Option<&Tree>, chunk: &Chunking, cb_limit: Option<u64>) -> (Option<Tree>, DriveStats) {
    let mut stats = DriveStats::default();
    let mut reads = 0u64;
    let mut served = 0u64;
    let mut cbs = 0u64;
    let mut cancelled = false;
    let tree = {
        let mut read = |byte: usize, _p: Point| -> &[u8] {
            reads += 1;
            if byte >= text.len() {
                return &[];
            }
            let e = chunk.end_for(byte, text.len());
            served += (e - byte) as u64;
            &text[byte..e]
        };
        let mut progress = |_s: &tree_sitter::ParseState| -> ControlFlow<()> {
            cbs += 1;
            if let Some(l) = cb_limit {
                if cbs > l {
                    cancelled = true;
                    return ControlFlow::Break(());
                }
            }
            ControlFlow::Continue(())
        };
        let opts = ParseOptions::new().progress_callback(&mut progress);
        parser.parse_with_options(&mut read, old, Some(opts))
    };
    stats.callbacks = cbs;
    stats.reads = reads;
    stats.bytes_served = served;
    stats.cancelled = cancelled;
    (tree, stats)
}

/// deterministic operation budget for "terminates": callbacks allowed for a text of `len` bytes
pub fn termination_budget(len: usize) -> u64 {
    10_000 * (len as u64 + 1) + 1_000_000
}
