//! Reference text model: bytes, line starts, byte<->point, edits. No tree-sitter code (only its plain data structs).
use tree_sitter::{InputEdit, Point};

#[derive(Clone, Debug)]
pub struct Text {
    pub bytes: Vec<u8>,
    line_starts: Vec<usize>,
}

#[derive(Clone, Debug, PartialEq, Eq)]
pub struct Edit {
    pub start: usize,
    pub old_end: usize,
    pub inserted: Vec<u8>,
}

impl Text {
    pub fn new(bytes: Vec<u8>) -> Self {
        let mut t = Text { bytes, line_starts: vec![] };
        t.reindex();
        t
    }
    fn reindex(&mut self) {
        self.line_starts.clear();
        self.line_starts.push(0);
        for (i, b) in self.bytes.iter().enumerate() {
            if *b == b'\n' {
                self.line_starts.push(i + 1);
            }
        }
    }
    pub fn len(&self) -> usize {
        self.bytes.len()
    }
    pub fn is_empty(&self) -> bool {
        self.bytes.is_empty()
    }
    pub fn line_count(&self) -> usize {
        self.line_starts.len()
    }
    pub fn line_start(&self, row: usize) -> usize {
        self.line_starts[row.min(self.line_starts.len() - 1)]
    }
    /// point of a byte offset (offset may equal len); column = bytes since line start
    pub fn point_of(&self, off: usize) -> Point {
        let off = off.min(self.bytes.len());
        let row = match self.line_starts.binary_search(&off) {
            Ok(i) => i,
            Err(i) => i - 1,
        };
        Point { row, column: off - self.line_starts[row] }
    }
    pub fn offset_of(&self, p: Point) -> usize {
        if p.row >= self.line_starts.len() {
            return self.bytes.len();
        }
        let ls = self.line_starts[p.row];
        let le = if p.row + 1 < self.line_starts.len() { self.line_starts[p.row + 1] } else { self.bytes.len() };
        (ls + p.column).min(le)
    }
    /// apply an edit, returning the InputEdit computed from this model
    pub fn apply(&mut self, e: &Edit) -> InputEdit {
        let start_position = self.point_of(e.start);
        let old_end_position = self.point_of(e.old_end);
        self.bytes.splice(e.start..e.old_end, e.inserted.iter().copied());
        self.reindex();
        let new_end_byte = e.start + e.inserted.len();
        let new_end_position = self.point_of(new_end_byte);
        InputEdit {
            start_byte: e.start,
            old_end_byte: e.old_end,
            new_end_byte,
            start_position,
            old_end_position,
            new_end_position,
        }
    }
    pub fn is_char_boundary(&self, off: usize) -> bool {
        if off == 0 || off >= self.bytes.len() {
            return true;
        }
        (self.bytes[off] & 0xC0) != 0x80
    }
    pub fn lossy(&self) -> String {
        String::from_utf8_lossy(&self.bytes).into_owned()
    }
}

pub fn pt(p: Point) -> (usize, usize) {
    (p.row, p.column)
}

pub fn show_bytes(b: &[u8], max: usize) -> String {
    let mut s = String::new();
    for (i, c) in b.iter().enumerate() {
        if i >= max {
            s.push_str(&format!("…(+{} bytes)", b.len() - max));
            break;
        }
        match *c {
            b'\n' => s.push_str("\\n"),
            b'\r' => s.push_str("\\r"),
            b'\t' => s.push_str("\\t"),
            b'\\' => s.push_str("\\\\"),
            0x20..=0x7e => s.push(*c as char),
            _ => s.push_str(&format!("\\x{:02x}", c)),
        }
    }
    s
}
