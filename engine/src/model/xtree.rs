//! Explicit tree built by ONE TreeCursor depth-first walk; the common currency of the tree properties.
use tree_sitter::{Language, Node, Tree};

#[derive(Clone, Debug, PartialEq, Eq)]
pub struct XNode {
    pub kind_id: u16,
    pub grammar_id: u16,
    pub named: bool,
    pub extra: bool,
    pub missing: bool,
    pub error: bool,
    pub has_error: bool,
    pub has_changes: bool,
    pub start: usize,
    pub end: usize,
    pub sp: (usize, usize),
    pub ep: (usize, usize),
    pub field: Option<u16>,
    pub id: usize,
    pub parent: Option<usize>,
    pub children: Vec<usize>,
    pub depth: u32,
}

#[derive(Clone, Debug)]
pub struct XTree {
    pub nodes: Vec<XNode>,
}

fn mk(n: &Node, field: Option<u16>, parent: Option<usize>, depth: u32) -> XNode {
    let sp = n.start_position();
    let ep = n.end_position();
    XNode {
        kind_id: n.kind_id(),
        grammar_id: n.grammar_id(),
        named: n.is_named(),
        extra: n.is_extra(),
        missing: n.is_missing(),
        error: n.is_error(),
        has_error: n.has_error(),
        has_changes: n.has_changes(),
        start: n.start_byte(),
        end: n.end_byte(),
        sp: (sp.row, sp.column),
        ep: (ep.row, ep.column),
        field,
        id: n.id(),
        parent,
        children: vec![],
        depth,
    }
}

impl XTree {
    pub fn build(tree: &Tree) -> XTree {
        Self::build_from(tree.root_node())
    }
    pub fn build_from(root: Node) -> XTree {
        Self::build_nodes(root).0
    }
    /// the explicit tree plus the Node handle of every entry (same indices)
    pub fn build_nodes<'t>(root: Node<'t>) -> (XTree, Vec<Node<'t>>) {
        let mut c = root.walk();
        let mut nodes: Vec<XNode> = Vec::new();
        let mut handles: Vec<Node<'t>> = Vec::new();
        handles.push(c.node());
        nodes.push(mk(&c.node(), c.field_id().map(|f| f.get()), None, 0));
        let mut stack: Vec<usize> = vec![0];
        'outer: loop {
            if c.goto_first_child() {
                let p = *stack.last().unwrap();
                let i = nodes.len();
                handles.push(c.node());
                nodes.push(mk(&c.node(), c.field_id().map(|f| f.get()), Some(p), stack.len() as u32));
                nodes[p].children.push(i);
                stack.push(i);
                continue;
            }
            loop {
                if stack.len() == 1 {
                    break 'outer;
                }
                if c.goto_next_sibling() {
                    stack.pop();
                    let p = *stack.last().unwrap();
                    let i = nodes.len();
                    handles.push(c.node());
                    nodes.push(mk(&c.node(), c.field_id().map(|f| f.get()), Some(p), stack.len() as u32));
                    nodes[p].children.push(i);
                    stack.push(i);
                    break;
                }
                if !c.goto_parent() {
                    break 'outer;
                }
                stack.pop();
            }
        }
        (XTree { nodes }, handles)
    }
    pub fn len(&self) -> usize {
        self.nodes.len()
    }
    pub fn root(&self) -> &XNode {
        &self.nodes[0]
    }
    pub fn any_error(&self) -> bool {
        self.nodes.iter().any(|n| n.error || n.missing)
    }
    pub fn leaves(&self) -> impl Iterator<Item = &XNode> {
        self.nodes.iter().filter(|n| n.children.is_empty())
    }
    pub fn ids(&self) -> std::collections::HashSet<usize> {
        self.nodes.iter().map(|n| n.id).collect()
    }
    pub fn path_kinds(&self, mut i: usize, lang: &Language) -> String {
        let mut v = vec![];
        loop {
            v.push(kind_name(lang, self.nodes[i].kind_id).to_string());
            match self.nodes[i].parent {
                Some(p) => i = p,
                None => break,
            }
        }
        v.reverse();
        v.join("/")
    }
    /// S-expression like rendering with ranges, for messages
    pub fn render(&self, lang: &Language, max_nodes: usize) -> String {
        let mut s = String::new();
        let mut count = 0;
        self.render_rec(0, lang, &mut s, &mut count, max_nodes);
        s
    }
    fn render_rec(&self, i: usize, lang: &Language, s: &mut String, count: &mut usize, max: usize) {
        if *count >= max {
            s.push('…');
            return;
        }
        *count += 1;
        let n = &self.nodes[i];
        if let Some(f) = n.field {
            s.push_str(lang.field_name_for_id(f).unwrap_or("?"));
            s.push(':');
        }
        s.push('(');
        if n.missing {
            s.push_str("MISSING ");
        }
        if n.named {
            s.push_str(kind_name(lang, n.kind_id));
        } else {
            s.push_str(&format!("{:?}", kind_name(lang, n.kind_id)));
        }
        s.push_str(&format!(" {}-{}", n.start, n.end));
        if n.extra {
            s.push_str(" x");
        }
        for &c in &n.children {
            s.push(' ');
            self.render_rec(c, lang, s, count, max);
        }
        s.push(')');
    }
    pub fn structure_hash(&self) -> u64 {
        let mut h: u64 = 0xcbf29ce484222325;
        for n in &self.nodes {
            for v in [n.kind_id as u64, n.start as u64, n.end as u64, n.children.len() as u64, n.named as u64] {
                h ^= v;
                h = h.wrapping_mul(0x100000001b3);
            }
        }
        h
    }
}

pub fn kind_name(lang: &Language, id: u16) -> &str {
    if id == 65535 {
        "ERROR"
    } else {
        lang.node_kind_for_id(id).unwrap_or("?")
    }
}

#[derive(Clone, Copy)]
pub struct EqOpts {
    pub ranges: bool,
    pub points: bool,
    pub flags: bool,
    pub has_changes: bool,
    pub ids: bool,
}
impl EqOpts {
    pub const FULL: EqOpts = EqOpts { ranges: true, points: true, flags: true, has_changes: false, ids: false };
    pub const SHAPE: EqOpts = EqOpts { ranges: false, points: false, flags: true, has_changes: false, ids: false };
    pub const SNAPSHOT: EqOpts = EqOpts { ranges: true, points: true, flags: true, has_changes: true, ids: false };
}

/// first difference between two explicit trees: (index in a, index in b, description)
pub fn xtree_diff(a: &XTree, b: &XTree, o: EqOpts) -> Option<(usize, usize, String)> {
    let mut stack = vec![(0usize, 0usize)];
    while let Some((i, j)) = stack.pop() {
        let x = &a.nodes[i];
        let y = &b.nodes[j];
        if x.kind_id != y.kind_id || x.named != y.named {
            return Some((i, j, format!("kind {}/{} vs {}/{}", x.kind_id, x.named, y.kind_id, y.named)));
        }
        if x.field != y.field {
            return Some((i, j, format!("field {:?} vs {:?}", x.field, y.field)));
        }
        if o.flags && (x.extra != y.extra || x.missing != y.missing || x.error != y.error) {
            return Some((
                i,
                j,
                format!("flags extra/missing/error {}{}{} vs {}{}{}", x.extra as u8, x.missing as u8, x.error as u8, y.extra as u8, y.missing as u8, y.error as u8),
            ));
        }
        if o.ranges && (x.start != y.start || x.end != y.end) {
            return Some((i, j, format!("bytes {}-{} vs {}-{}", x.start, x.end, y.start, y.end)));
        }
        if o.points && (x.sp != y.sp || x.ep != y.ep) {
            return Some((i, j, format!("points {:?}-{:?} vs {:?}-{:?}", x.sp, x.ep, y.sp, y.ep)));
        }
        if o.has_changes && (x.has_changes != y.has_changes || x.has_error != y.has_error) {
            return Some((i, j, format!("has_changes/has_error {}{} vs {}{}", x.has_changes, x.has_error, y.has_changes, y.has_error)));
        }
        if o.ids && x.id != y.id {
            return Some((i, j, "node id".to_string()));
        }
        if x.children.len() != y.children.len() {
            return Some((i, j, format!("child count {} vs {}", x.children.len(), y.children.len())));
        }
        for k in (0..x.children.len()).rev() {
            stack.push((x.children[k], y.children[k]));
        }
    }
    None
}
