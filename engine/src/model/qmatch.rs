//! Reference backtracking matcher for query patterns over the explicit tree (documented semantics).
use crate::gen::query::{Child, Item, Kind, Pat, Quant};
use crate::lang::Lang;
use crate::model::xtree::{kind_name, XTree};
use std::collections::{BTreeSet, HashMap, HashSet};

/// sorted list of (capture name, node index)
pub type Binding = Vec<(String, usize)>;

pub struct Matcher<'a> {
    pub xt: &'a XTree,
    pub lang: &'a Lang,
    pub limit: usize,
    pub truncated: bool,
    /// a supertype test could not be decided exactly (kind reachable both through and outside the supertype)
    pub inexact: bool,
    /// pretend extras are not there (to tell whether a pattern matches only thanks to an extra child)
    pub skip_extras: bool,
    subtypes: HashMap<String, HashSet<String>>,
    exclusive: HashMap<String, HashSet<String>>,
    work: usize,
}

impl<'a> Matcher<'a> {
    pub fn new(xt: &'a XTree, lang: &'a Lang, limit: usize) -> Self {
        let l = &lang.language;
        let mut direct: HashMap<String, Vec<String>> = HashMap::new();
        for &s in l.supertypes() {
            let name = l.node_kind_for_id(s).unwrap_or("").to_string();
            let subs: Vec<String> = l.subtypes_for_supertype(s).iter().filter_map(|&x| l.node_kind_for_id(x).map(|s| s.to_string())).collect();
            direct.insert(name, subs);
        }
        let mut subtypes: HashMap<String, HashSet<String>> = HashMap::new();
        for k in direct.keys() {
            let mut set = HashSet::new();
            let mut stack = vec![k.clone()];
            while let Some(x) = stack.pop() {
                if let Some(v) = direct.get(&x) {
                    for y in v {
                        if set.insert(y.clone()) {
                            stack.push(y.clone());
                        }
                    }
                }
            }
            subtypes.insert(k.clone(), set);
        }
        let mut exclusive: HashMap<String, HashSet<String>> = HashMap::new();
        if let Some(m) = lang.meta.get("supertype_exclusive").and_then(|v| v.as_object()) {
            for (k, v) in m {
                exclusive.insert(k.clone(), v.as_array().map(|a| a.iter().filter_map(|x| x.as_str().map(|s| s.to_string())).collect()).unwrap_or_default());
            }
        }
        Matcher { xt, lang, limit, truncated: false, inexact: false, skip_extras: false, subtypes, exclusive, work: 0 }
    }

    fn kind_matches(&mut self, k: &Kind, i: usize) -> bool {
        let n = &self.xt.nodes[i];
        let l = &self.lang.language;
        let name = kind_name(l, n.kind_id);
        match k {
            Kind::Named(s) => n.named && name == s && !n.error,
            Kind::Anon(s) => !n.named && name == s,
            // wildcards never match ERROR nodes (query.c: node_does_match = !node_is_error && ...)
            Kind::WildNamed => n.named && !n.error,
            Kind::Wild => !n.error,
            Kind::Error => n.error,
            Kind::Missing(None) => n.missing,
            Kind::Missing(Some(inner)) => {
                n.missing
                    && match &**inner {
                        Kind::Named(s) => n.named && name == s,
                        Kind::Anon(s) => !n.named && name == s,
                        _ => true,
                    }
            }
            Kind::Super(sup, sub) => {
                if !n.named || n.error {
                    return false;
                }
                if let Some(sub) = sub {
                    if name != sub {
                        return false;
                    }
                }
                let in_sub = self.subtypes.get(sup).map(|s| s.contains(name)).unwrap_or(false);
                if !in_sub {
                    return false;
                }
                let excl = self.exclusive.get(sup).map(|s| s.contains(name)).unwrap_or(false);
                let under_error = n.parent.map(|p| self.xt.nodes[p].error).unwrap_or(false);
                if !excl || under_error {
                    self.inexact = true;
                }
                true
            }
        }
    }

    /// all distinct bindings of `it` (quantifier ignored) matched with its root at node `i`
    pub fn match_at(&mut self, it: &Item, i: usize) -> Vec<Binding> {
        let mut out: Vec<Binding> = vec![];
        match &it.pat {
            Pat::Node { kind, children, anchor_last, neg_fields } => {
                if !self.kind_matches(kind, i) {
                    return out;
                }
                let l = &self.lang.language;
                for f in neg_fields {
                    let has = self.xt.nodes[i].children.iter().any(|&c| self.xt.nodes[c].field.and_then(|x| l.field_name_for_id(x)) == Some(f.as_str()));
                    if has {
                        return out;
                    }
                }
                let kids: Vec<usize> = if self.skip_extras { self.xt.nodes[i].children.iter().copied().filter(|&c| !self.xt.nodes[c].extra).collect() } else { self.xt.nodes[i].children.clone() };
                let subs = self.seq(children, 0, &kids, 0, None, *anchor_last);
                for (b, _) in subs {
                    out.push(b);
                }
            }
            Pat::Alt(items) => {
                for x in items {
                    if matches!(x.pat, Pat::Group(..)) {
                        continue;
                    }
                    let mut r = self.match_at(x, i);
                    for b in r.iter_mut() {
                        for c in &x.captures {
                            b.push((c.clone(), i));
                        }
                    }
                    out.append(&mut r);
                }
            }
            Pat::Group(..) => {}
        }
        for b in out.iter_mut() {
            for c in &it.captures {
                b.push((c.clone(), i));
            }
            b.sort();
        }
        dedup(&mut out);
        out
    }

    fn named_between(&self, kids: &[usize], a: Option<usize>, b: usize) -> bool {
        let start = a.map(|x| x + 1).unwrap_or(0);
        kids[start..b].iter().any(|&c| self.xt.nodes[c].named)
    }

    /// match elems[ei..] against kids[pos..]; prev = index in kids of the last matched child.
    /// returns (binding, last matched index)
    fn seq(&mut self, elems: &[Child], ei: usize, kids: &[usize], pos: usize, prev: Option<usize>, anchor_last: bool) -> Vec<(Binding, Option<usize>)> {
        self.work += 1;
        if self.work > 400_000 || self.truncated {
            self.truncated = true;
            return vec![];
        }
        if ei == elems.len() {
            if anchor_last {
                if let Some(p) = prev {
                    if kids[p + 1..].iter().any(|&c| self.xt.nodes[c].named) {
                        return vec![];
                    }
                } else if kids.iter().any(|&c| self.xt.nodes[c].named) {
                    // nothing matched at all but a last-child anchor was demanded
                    return vec![];
                }
            }
            return vec![(vec![], prev)];
        }
        let e = &elems[ei];
        let mut results: Vec<(Binding, Option<usize>)> = vec![];
        // ways to match element e once starting at >= pos: (binding, first index, last index)
        let once = |me: &mut Self, pos: usize, prev: Option<usize>, anchored: bool| -> Vec<(Binding, usize)> {
            let mut r = vec![];
            match &e.item.pat {
                Pat::Group(gchildren, g_anchor_last) => {
                    // a nested sibling sequence
                    let mut gc: Vec<Child> = gchildren.clone();
                    if anchored && !gc.is_empty() {
                        gc[0].anchor = true;
                    }
                    let sub = me.seq(&gc, 0, kids, pos, prev, false);
                    for (b, last) in sub {
                        if let Some(last) = last {
                            if *g_anchor_last && kids[last + 1..].iter().any(|&c| me.xt.nodes[c].named) {
                                continue;
                            }
                            if Some(last) != prev {
                                r.push((b, last));
                            }
                        }
                    }
                }
                _ => {
                    for i in pos..kids.len() {
                        if anchored && me.named_between(kids, prev, i) {
                            break;
                        }
                        let ci = kids[i];
                        if let Some(f) = &e.field {
                            let cf = me.xt.nodes[ci].field.and_then(|x| me.lang.language.field_name_for_id(x));
                            if cf != Some(f.as_str()) {
                                continue;
                            }
                        }
                        let bs = me.match_at(&Item { pat: e.item.pat.clone(), quant: Quant::One, captures: e.item.captures.clone() }, ci);
                        for b in bs {
                            r.push((b, i));
                        }
                        if r.len() > me.limit {
                            me.truncated = true;
                            break;
                        }
                    }
                }
            }
            r
        };
        let q = e.item.quant;
        // zero occurrences
        if q == Quant::Opt || q == Quant::Star {
            // lenient reading (the docs are silent; the runtime drops immediacy after a skipped quantifier):
            // neither the skipped element's anchor nor the next element's own anchor constrains the next element
            let mut rest_elems: Vec<Child> = elems.to_vec();
            if ei + 1 < rest_elems.len() {
                rest_elems[ei + 1].anchor = false;
            }
            // a last-child anchor belongs to the last element: it is vacuous when that element is skipped
            let al = if ei + 1 == elems.len() { false } else { anchor_last };
            let rest = self.seq(&rest_elems, ei + 1, kids, pos, prev, al);
            results.extend(rest);
        }
        // one or more occurrences
        let first = once(self, pos, prev, e.anchor);
        let mut frontier: Vec<(Binding, usize)> = first;
        let mut rounds = 0;
        while !frontier.is_empty() {
            rounds += 1;
            let mut next_frontier = vec![];
            for (b, last) in &frontier {
                let rest = self.seq(elems, ei + 1, kids, last + 1, Some(*last), anchor_last);
                for (rb, rl) in rest {
                    let mut nb = b.clone();
                    nb.extend(rb);
                    results.push((nb, rl));
                }
                if (q == Quant::Star || q == Quant::Plus) && rounds >= 14 {
                    self.truncated = true;
                }
                if (q == Quant::Star || q == Quant::Plus) && rounds < 14 {
                    let more = once(self, last + 1, Some(*last), false);
                    for (mb, ml) in more {
                        let mut nb = b.clone();
                        nb.extend(mb);
                        next_frontier.push((nb, ml));
                    }
                }
                if results.len() > self.limit {
                    self.truncated = true;
                    return results;
                }
            }
            frontier = next_frontier;
            if frontier.len() > self.limit {
                self.truncated = true;
                break;
            }
        }
        results
    }

    /// all distinct bindings of a top-level pattern anywhere in the tree
    pub fn match_all(&mut self, it: &Item) -> BTreeSet<Binding> {
        let mut set = BTreeSet::new();
        for i in 0..self.xt.len() {
            for b in self.match_at(it, i) {
                set.insert(b);
            }
            if set.len() > self.limit {
                self.truncated = true;
                break;
            }
        }
        set
    }
}

fn dedup(v: &mut Vec<Binding>) {
    v.sort();
    v.dedup();
}
