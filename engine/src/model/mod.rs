pub mod cfg;
pub mod qmatch;
pub mod text;
pub mod xtree;
