pub mod qmatch;
pub mod text;
pub mod xtree;
