pub mod text;
pub mod xtree;
