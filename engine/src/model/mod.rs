pub mod cfg;
pub mod dot;
pub mod qmatch;
pub mod text;
pub mod xtree;
