//! Reader for the runtime's dot-graph dump: the only view of hidden nodes, per-node look-ahead bytes and has-changes.
use std::collections::HashMap;
use tree_sitter::Tree;

#[derive(Clone, Debug)]
pub struct DNode {
    pub label: String,
    /// start including padding, end
    pub start: usize,
    pub end: usize,
    pub has_changes: bool,
    pub lookahead: usize,
    pub children: Vec<usize>,
}

/// nodes in the order the runtime prints them (pre-order); index 0 is the root
pub fn dot_of(tree: &Tree, scratch: &std::path::Path) -> Option<Vec<DNode>> {
    {
        let f = std::fs::File::create(scratch).ok()?;
        tree.print_dot_graph(&f);
    }
    let s = std::fs::read_to_string(scratch).ok()?;
    let _ = std::fs::remove_file(scratch);
    parse_dot(&s)
}

pub fn parse_dot(s: &str) -> Option<Vec<DNode>> {
    let mut nodes: Vec<DNode> = vec![];
    let mut index: HashMap<&str, usize> = HashMap::new();
    let mut lines = s.lines().peekable();
    while let Some(line) = lines.next() {
        if !line.starts_with("tree_") {
            continue;
        }
        let id_end = line.find(' ')?;
        let id = &line[..id_end];
        let rest = &line[id_end + 1..];
        if let Some(r) = rest.strip_prefix("-> ") {
            let child = r.split(' ').next()?;
            let (p, c) = (*index.get(id)?, *index.get(child)?);
            nodes[p].children.push(c);
            continue;
        }
        // node: gather the tooltip up to the closing `"]`
        let mut block = rest.to_string();
        while !block.ends_with("\"]") {
            let Some(n) = lines.next() else { return None };
            block.push('\n');
            block.push_str(n);
        }
        let field = |name: &str| -> Option<usize> {
            let i = block.rfind(name)? + name.len();
            let tail = &block[i..];
            let num: String = tail.chars().take_while(|c| c.is_ascii_digit()).collect();
            num.parse().ok()
        };
        let ri = block.rfind("range: ")? + 7;
        let rtail = &block[ri..];
        let a: String = rtail.chars().take_while(|c| c.is_ascii_digit()).collect();
        let after = &rtail[a.len()..];
        let after = after.strip_prefix(" - ")?;
        let b: String = after.chars().take_while(|c| c.is_ascii_digit()).collect();
        let label = block.strip_prefix("[label=\"").map(|x| x.split("\", ").next().unwrap_or("").to_string()).unwrap_or_default();
        index.insert(id, nodes.len());
        nodes.push(DNode { label, start: a.parse().ok()?, end: b.parse().ok()?, has_changes: field("has-changes: ")? != 0, lookahead: field("lookahead-bytes: ")?, children: vec![] });
    }
    if nodes.is_empty() {
        None
    } else {
        Some(nodes)
    }
}
