//! Reference parsers over the grammar AST (own desugaring; none of the generator's passes):
//! a memoised span parser that enumerates derivations as visible trees, and a precedence-climbing parser.
use crate::gen::grammar::{OpLevel, G, R};
use std::collections::HashMap;

#[derive(Clone, Debug, PartialEq)]
pub struct VNode {
    pub kind: String,
    pub named: bool,
    pub field: Option<String>,
    pub children: Vec<VNode>,
    /// token index range
    pub start: usize,
    pub end: usize,
}

pub struct SpanParser<'g> {
    pub g: &'g G,
    pub toks: &'g [String],
    memo: HashMap<(usize, usize, usize), Vec<Vec<VNode>>>,
    minlen: HashMap<usize, usize>,
    rule_min: HashMap<String, usize>,
    pub work: usize,
    pub gave_up: bool,
    in_progress: std::collections::HashSet<(usize, usize, usize)>,
    regexes: HashMap<String, regex::Regex>,
}

const CAP: usize = 2;

impl<'g> SpanParser<'g> {
    pub fn new(g: &'g G, toks: &'g [String]) -> Self {
        let mut p = SpanParser { g, toks, memo: HashMap::new(), minlen: HashMap::new(), rule_min: HashMap::new(), work: 0, gave_up: false, regexes: HashMap::new(), in_progress: Default::default() };
        // fixpoint for minimal token lengths of rules
        for (n, _) in &g.rules {
            p.rule_min.insert(n.clone(), 1_000_000);
        }
        loop {
            let mut changed = false;
            for (n, r) in &g.rules {
                let m = p.min_of(r);
                if m < p.rule_min[n] {
                    p.rule_min.insert(n.clone(), m);
                    changed = true;
                }
            }
            if !changed {
                break;
            }
        }
        p
    }
    fn min_of(&self, r: &R) -> usize {
        match r {
            R::Blank => 0,
            R::Str(_) | R::Pat(_) | R::Token(_) => 1,
            R::Sym(s) => *self.rule_min.get(s).unwrap_or(&1),
            R::Seq(v) => v.iter().map(|x| self.min_of(x)).fold(0usize, |a, b| a.saturating_add(b).min(1_000_000)),
            R::Choice(v) => v.iter().map(|x| self.min_of(x)).min().unwrap_or(0),
            R::Repeat(_) => 0,
            R::Repeat1(x) => self.min_of(x),
            R::Field(_, x) => self.min_of(x),
            R::Alias { content, .. } => self.min_of(content),
            R::Prec { content, .. } => self.min_of(content),
        }
    }
    fn key(r: &R) -> usize {
        r as *const R as usize
    }
    fn ml(&mut self, r: &R) -> usize {
        let k = Self::key(r);
        if let Some(m) = self.minlen.get(&k) {
            return *m;
        }
        let m = self.min_of(r);
        self.minlen.insert(k, m);
        m
    }
    fn tok_matches(&mut self, r: &R, tok: &str) -> bool {
        match r {
            R::Str(s) => s == tok,
            R::Pat(p) => {
                let re = self.regexes.entry(p.clone()).or_insert_with(|| regex::Regex::new(&format!("^(?:{p})$")).unwrap());
                re.is_match(tok)
            }
            R::Token(x) => self.tok_matches(x, tok),
            _ => false,
        }
    }

    /// all derivations of `r` over tokens i..j as lists of visible top-level nodes (capped at 2)
    pub fn parse(&mut self, r: &'g R, i: usize, j: usize) -> Vec<Vec<VNode>> {
        self.work += 1;
        if self.work > 300_000 {
            self.gave_up = true;
            return vec![];
        }
        let k = (Self::key(r), i, j);
        if let Some(v) = self.memo.get(&k) {
            return v.clone();
        }
        if j - i < self.ml(r) {
            return vec![];
        }
        if !self.in_progress.insert(k) {
            // left recursion over the same span: this simple reference does not handle it
            self.gave_up = true;
            return vec![];
        }
        let out: Vec<Vec<VNode>> = match r {
            R::Blank => {
                if i == j {
                    vec![vec![]]
                } else {
                    vec![]
                }
            }
            R::Str(s) => {
                if j == i + 1 && self.toks[i] == *s {
                    vec![vec![VNode { kind: s.clone(), named: false, field: None, children: vec![], start: i, end: j }]]
                } else {
                    vec![]
                }
            }
            R::Pat(_) | R::Token(_) => {
                // anonymous pattern tokens are only used through named rules here
                let t = self.toks.get(i).cloned().unwrap_or_default();
                if j == i + 1 && self.tok_matches(r, &t) {
                    vec![vec![VNode { kind: String::new(), named: false, field: None, children: vec![], start: i, end: j }]]
                } else {
                    vec![]
                }
            }
            R::Sym(name) => {
                let body = match self.g.rule(name) {
                    Some(b) => b,
                    None => return vec![],
                };
                let is_tok = matches!(body, R::Pat(_) | R::Token(_) | R::Str(_));
                let subs = self.parse(body, i, j);
                if self.g.is_hidden(name) {
                    subs
                } else if is_tok {
                    // a named token rule: one leaf of that kind
                    subs.into_iter().map(|_| vec![VNode { kind: name.clone(), named: true, field: None, children: vec![], start: i, end: j }]).collect()
                } else if self.g.supertypes.iter().any(|s| s == name) {
                    subs
                } else {
                    subs.into_iter().map(|c| vec![VNode { kind: name.clone(), named: true, field: None, children: c, start: i, end: j }]).collect()
                }
            }
            R::Seq(v) => self.parse_seq(v, 0, i, j),
            R::Choice(v) => {
                let mut out = vec![];
                for x in v {
                    for d in self.parse(x, i, j) {
                        if !out.contains(&d) {
                            out.push(d);
                        }
                        if out.len() >= CAP {
                            break;
                        }
                    }
                }
                out
            }
            R::Repeat(x) | R::Repeat1(x) => {
                let min1 = matches!(r, R::Repeat1(_));
                self.parse_rep(x, i, j, min1)
            }
            R::Field(name, x) => {
                let subs = self.parse(x, i, j);
                subs.into_iter()
                    .map(|mut c| {
                        for n in c.iter_mut() {
                            if n.field.is_none() {
                                n.field = Some(name.clone());
                            }
                        }
                        c
                    })
                    .collect()
            }
            R::Alias { content, value, named } => {
                let hidden_sym = matches!(&**content, R::Sym(s) if self.g.is_hidden(s));
                let subs = self.parse(content, i, j);
                subs.into_iter()
                    .map(|c| {
                        if hidden_sym || c.len() != 1 {
                            vec![VNode { kind: value.clone(), named: *named, field: None, children: c, start: i, end: j }]
                        } else {
                            let mut n = c.into_iter().next().unwrap();
                            n.kind = value.clone();
                            n.named = *named;
                            vec![n]
                        }
                    })
                    .collect()
            }
            R::Prec { content, .. } => self.parse(content, i, j),
        };
        let mut out = out;
        out.truncate(CAP);
        self.in_progress.remove(&k);
        self.memo.insert(k, out.clone());
        out
    }

    fn parse_seq(&mut self, v: &'g [R], idx: usize, i: usize, j: usize) -> Vec<Vec<VNode>> {
        if idx == v.len() {
            return if i == j { vec![vec![]] } else { vec![] };
        }
        let rest_min: usize = v[idx + 1..].iter().map(|x| self.min_of(x)).sum();
        let my_min = self.min_of(&v[idx]);
        let mut out: Vec<Vec<VNode>> = vec![];
        if j < i + rest_min + my_min {
            return out;
        }
        for k in (i + my_min)..=(j - rest_min) {
            let heads = self.parse(&v[idx], i, k);
            if heads.is_empty() {
                continue;
            }
            let tails = self.parse_seq(v, idx + 1, k, j);
            for h in &heads {
                for t in &tails {
                    let mut c = h.clone();
                    c.extend(t.iter().cloned());
                    if !out.contains(&c) {
                        out.push(c);
                    }
                    if out.len() >= CAP {
                        return out;
                    }
                }
            }
        }
        out
    }

    fn parse_rep(&mut self, x: &'g R, i: usize, j: usize, min1: bool) -> Vec<Vec<VNode>> {
        let mut out: Vec<Vec<VNode>> = vec![];
        if i == j {
            return if min1 { vec![] } else { vec![vec![]] };
        }
        let m = self.min_of(x).max(1);
        // first item spans i..k (non-empty), the rest is a (possibly empty) repeat
        for k in (i + m)..=j {
            let heads = self.parse(x, i, k);
            if heads.is_empty() {
                continue;
            }
            let tails = if k == j { vec![vec![]] } else { self.parse_rep(x, k, j, true) };
            for h in &heads {
                for t in &tails {
                    let mut c = h.clone();
                    c.extend(t.iter().cloned());
                    if !out.contains(&c) {
                        out.push(c);
                    }
                    if out.len() >= CAP {
                        return out;
                    }
                }
            }
        }
        out
    }

    /// derivations of the start rule over all tokens
    pub fn parse_start(&mut self) -> Vec<VNode> {
        let (name, body) = &self.g.rules[0];
        let n = self.toks.len();
        let subs = self.parse(body, 0, n);
        subs.into_iter().map(|c| VNode { kind: name.clone(), named: true, field: None, children: c, start: 0, end: n }).collect()
    }
}

/// precedence-climbing reference for the operator-table grammars; None = not a sentence
pub fn pratt_program(levels: &[OpLevel], toks: &[String]) -> Option<VNode> {
    struct P<'a> {
        levels: &'a [OpLevel],
        toks: &'a [String],
        pos: usize,
    }
    impl<'a> P<'a> {
        fn peek(&self) -> Option<&str> {
            self.toks.get(self.pos).map(|s| s.as_str())
        }
        fn bin(&self, t: &str) -> Option<(i32, &'static str)> {
            self.levels.iter().find(|l| l.binary.iter().any(|o| o == t)).map(|l| (l.prec, l.assoc))
        }
        fn pre(&self, t: &str) -> Option<i32> {
            self.levels.iter().find(|l| l.prefix.iter().any(|o| o == t)).map(|l| l.prec + 5)
        }
        fn post(&self, t: &str) -> Option<i32> {
            self.levels.iter().find(|l| l.postfix.iter().any(|o| o == t)).map(|l| l.prec + 7)
        }
        fn leaf(&self, kind: &str, named: bool, field: Option<&str>, at: usize) -> VNode {
            VNode { kind: kind.to_string(), named, field: field.map(|s| s.to_string()), children: vec![], start: at, end: at + 1 }
        }
        fn primary(&mut self) -> Option<VNode> {
            let t = self.peek()?.to_string();
            let at = self.pos;
            if let Some(p) = self.pre(&t) {
                self.pos += 1;
                let mut arg = self.expr(p)?;
                arg.field = Some("arg".into());
                let end = arg.end;
                return Some(VNode { kind: "prefix".into(), named: true, field: None, children: vec![self.leaf(&t, false, Some("op"), at), arg], start: at, end });
            }
            if t == "(" {
                self.pos += 1;
                let inner = self.expr(i32::MIN / 2)?;
                if self.peek() != Some(")") {
                    return None;
                }
                let close = self.pos;
                self.pos += 1;
                return Some(VNode { kind: "paren".into(), named: true, field: None, children: vec![self.leaf("(", false, None, at), inner, self.leaf(")", false, None, close)], start: at, end: close + 1 });
            }
            if t.len() == 1 && t.chars().all(|c| c.is_ascii_lowercase() || c.is_ascii_digit()) {
                self.pos += 1;
                return Some(self.leaf("atom", true, None, at));
            }
            None
        }
        fn expr(&mut self, min_prec: i32) -> Option<VNode> {
            let mut lhs = self.primary()?;
            loop {
                let t = match self.peek() {
                    Some(t) => t.to_string(),
                    None => break,
                };
                if let Some((p, assoc)) = self.bin(&t) {
                    if p < min_prec {
                        break;
                    }
                    let at = self.pos;
                    self.pos += 1;
                    let mut rhs = self.expr(if assoc == "left" { p + 1 } else { p })?;
                    let start = lhs.start;
                    let end = rhs.end;
                    lhs.field = Some("left".into());
                    rhs.field = Some("right".into());
                    lhs = VNode { kind: "binary".into(), named: true, field: None, children: vec![lhs, self.leaf(&t, false, Some("op"), at), rhs], start, end };
                } else if let Some(p) = self.post(&t) {
                    if p < min_prec {
                        break;
                    }
                    let at = self.pos;
                    self.pos += 1;
                    let start = lhs.start;
                    lhs.field = Some("arg".into());
                    lhs = VNode { kind: "postfix".into(), named: true, field: None, children: vec![lhs, self.leaf(&t, false, Some("op"), at)], start, end: at + 1 };
                } else {
                    break;
                }
            }
            Some(lhs)
        }
    }
    let mut p = P { levels, toks, pos: 0 };
    let mut children = vec![];
    while p.pos < toks.len() {
        let e = p.expr(i32::MIN / 2)?;
        children.push(e);
        if p.peek() != Some(";") {
            return None;
        }
        let at = p.pos;
        children.push(p.leaf(";", false, None, at));
        p.pos += 1;
    }
    Some(VNode { kind: "program".into(), named: true, field: None, children, start: 0, end: toks.len() })
}

/// compare an expected visible tree with the explicit tree of the parser (kinds, named flags, fields, token extents)
pub fn compare(exp: &VNode, xt: &crate::model::xtree::XTree, i: usize, lang: &tree_sitter::Language, tok_start: &[usize], tok_end: &[usize], is_root: bool) -> Option<String> {
    let n = &xt.nodes[i];
    let kind = crate::model::xtree::kind_name(lang, n.kind_id);
    if !exp.kind.is_empty() && (kind != exp.kind || n.named != exp.named) {
        return Some(format!("node #{i}: parser has {kind:?} (named={}) where the derivation has {:?} (named={})", n.named, exp.kind, exp.named));
    }
    let fname = n.field.and_then(|f| lang.field_name_for_id(f));
    if fname != exp.field.as_deref() {
        return Some(format!("node #{i} {kind}: field {:?} where the derivation has {:?}", fname, exp.field));
    }
    if !is_root && exp.end > exp.start {
        let (s, e) = (tok_start[exp.start], tok_end[exp.end - 1]);
        if (n.start, n.end) != (s, e) {
            return Some(format!("node #{i} {kind}: bytes {}..{} where the derivation's tokens span {s}..{e}", n.start, n.end));
        }
    }
    if n.children.len() != exp.children.len() {
        return Some(format!("node #{i} {kind}: {} children where the derivation has {}", n.children.len(), exp.children.len()));
    }
    for (k, c) in exp.children.iter().enumerate() {
        if let Some(d) = compare(c, xt, n.children[k], lang, tok_start, tok_end, false) {
            return Some(d);
        }
    }
    None
}

pub fn render(v: &VNode) -> String {
    let mut s = String::new();
    if let Some(f) = &v.field {
        s.push_str(f);
        s.push(':');
    }
    s.push('(');
    if v.named {
        s.push_str(&v.kind);
    } else {
        s.push_str(&format!("{:?}", v.kind));
    }
    for c in &v.children {
        s.push(' ');
        s.push_str(&render(c));
    }
    s.push(')');
    s
}
