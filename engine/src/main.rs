use std::path::PathBuf;
use vengine::core::Tier;
use vengine::{checks, runner};

fn usage() -> ! {
    eprintln!("usage: vcheck <ID> [--tier quick|thorough] [--seed N] [--cases N] [--start N] [--jobs N] [--strict] [--replay PATH]");
    std::process::exit(2);
}

fn main() {
    let args: Vec<String> = std::env::args().skip(1).collect();
    if args.is_empty() {
        usage();
    }
    let mut worker = false;
    let mut id = String::new();
    let mut tier = match std::env::var("VERIF_TIER").as_deref() {
        Ok("thorough") => Tier::Thorough,
        _ => Tier::Quick,
    };
    let mut seed: u64 = std::env::var("VERIF_SEED").ok().and_then(|s| s.trim().parse::<i64>().ok()).map(|v| v as u64).unwrap_or(0);
    let mut cases = None;
    let mut jobs = None;
    let mut strict = false;
    let mut replay: Option<PathBuf> = None;
    let mut inflight: Option<PathBuf> = None;
    let mut start = 0u64;
    let mut i = 0;
    while i < args.len() {
        match args[i].as_str() {
            "--worker" => {
                worker = true;
                i += 1;
                id = args.get(i).cloned().unwrap_or_default();
            }
            "--tier" => {
                i += 1;
                tier = match args.get(i).map(|s| s.as_str()) {
                    Some("quick") => Tier::Quick,
                    Some("thorough") => Tier::Thorough,
                    _ => usage(),
                };
            }
            "--seed" => {
                i += 1;
                seed = args.get(i).and_then(|s| s.parse::<i64>().ok()).map(|v| v as u64).unwrap_or_else(|| usage());
            }
            "--cases" => {
                i += 1;
                cases = args.get(i).and_then(|s| s.parse().ok());
            }
            "--start" => {
                i += 1;
                start = args.get(i).and_then(|s| s.parse().ok()).unwrap_or(0);
            }
            "--jobs" => {
                i += 1;
                jobs = args.get(i).and_then(|s| s.parse().ok());
            }
            "--strict" => strict = true,
            "--replay" => {
                i += 1;
                replay = args.get(i).map(PathBuf::from);
            }
            "--inflight" => {
                i += 1;
                inflight = args.get(i).map(PathBuf::from);
            }
            "--parse" => {
                // debug: vcheck --parse <lang> <file>
                let l = vengine::lang::zoo(&args[i + 1]);
                let bytes = std::fs::read(&args[i + 2]).unwrap();
                let mut p = tree_sitter::Parser::new();
                p.set_language(&l.language).unwrap();
                let tree = p.parse(&bytes, None).unwrap();
                let xt = vengine::model::xtree::XTree::build(&tree);
                println!("{}", xt.render(&l.language, 400));
                println!("{}", tree.root_node().to_sexp());
                let (xt, hs) = vengine::model::xtree::XTree::build_nodes(tree.root_node());
                for (i, h) in hs.iter().enumerate() {
                    let ps = h.parse_state();
                    let gid = h.grammar_id();
                    if ps as usize >= l.language.parse_state_count() || std::env::var("VERIF_STATES").is_ok() {
                        println!("node #{i} {} [{}..{}] parse_state={ps} grammar_id={gid} (states: {})", h.kind(), xt.nodes[i].start, xt.nodes[i].end, l.language.parse_state_count());
                    }
                }
                return;
            }
            "--gen" => {
                // debug: vcheck --gen <lang> <n> : print invalid generated sentences
                let l = vengine::lang::zoo(&args[i + 1]);
                let n: u64 = args[i + 2].parse().unwrap();
                let mut p = tree_sitter::Parser::new();
                p.set_language(&l.language).unwrap();
                let mut bad = 0;
                for k in 0..n {
                    let tape = vengine::tape::tape_for(seed, "gen", k, 2048);
                    let mut t = vengine::tape::Tape::new(&tape);
                    let d = vengine::gen::doc::sentence(l, &mut t);
                    let tree = p.parse(&d, None).unwrap();
                    if tree.root_node().has_error() {
                        bad += 1;
                        if d.len() < 160 {
                            println!("{:?}\n   {}", String::from_utf8_lossy(&d), tree.root_node().to_sexp());
                        }
                    }
                }
                println!("{bad}/{n} invalid");
                return;
            }
            "--reparse" => {
                // debug: vcheck --reparse <lang> <file> <start> <old_end> <inserted> : log the incremental parse
                let l = vengine::lang::zoo(&args[i + 1]);
                let bytes = std::fs::read(&args[i + 2]).unwrap();
                let start: usize = args[i + 3].parse().unwrap();
                let old_end: usize = args[i + 4].parse().unwrap();
                let ins = args[i + 5].replace("\\n", "\n").into_bytes();
                let mut p = tree_sitter::Parser::new();
                p.set_language(&l.language).unwrap();
                let rng: Vec<(usize, usize)> = std::env::var("VERIF_RANGES").ok().map(|s| s.split(';').map(|r| { let mut it = r.split(','); (it.next().unwrap().parse().unwrap(), it.next().unwrap().parse().unwrap()) }).collect()).unwrap_or_default();
                let mk = |t: &vengine::model::text::Text| -> Vec<tree_sitter::Range> { rng.iter().map(|&(s, e)| tree_sitter::Range { start_byte: s, end_byte: e, start_point: t.point_of(s), end_point: t.point_of(e) }).collect() };
                if !rng.is_empty() {
                    p.set_included_ranges(&mk(&vengine::model::text::Text::new(bytes.clone()))).unwrap();
                }
                let mut tree = p.parse(&bytes, None).unwrap();
                println!("old: {}", vengine::model::xtree::XTree::build(&tree).render(&l.language, 400));
                if let Ok(f) = std::env::var("VERIF_DOT") {
                    let file = std::fs::File::create(&f).unwrap();
                    tree.print_dot_graph(&file);
                }
                let mut text = vengine::model::text::Text::new(bytes);
                let ie = text.apply(&vengine::model::text::Edit { start, old_end, inserted: ins });
                tree.edit(&ie);
                if let Ok(f) = std::env::var("VERIF_DOT") {
                    let file = std::fs::File::create(format!("{f}.edited")).unwrap();
                    tree.print_dot_graph(&file);
                }
                p.set_logger(Some(Box::new(|ty, msg| {
                    println!("  {} {msg}", if ty == tree_sitter::LogType::Lex { "lex  " } else { "parse" });
                })));
                if !rng.is_empty() {
                    p.set_included_ranges(&mk(&text)).unwrap();
                }
                let t2 = p.parse(&text.bytes, Some(&tree)).unwrap();
                println!("inc: {}", vengine::model::xtree::XTree::build(&t2).render(&l.language, 400));
                let mut p2 = tree_sitter::Parser::new();
                p2.set_language(&l.language).unwrap();
                if !rng.is_empty() {
                    p2.set_included_ranges(&mk(&text)).unwrap();
                }
                let t3 = p2.parse(&text.bytes, None).unwrap();
                println!("scr: {}", vengine::model::xtree::XTree::build(&t3).render(&l.language, 400));
                return;
            }
            "--query" => {
                // debug: vcheck --query <lang> <file> <query>
                use streaming_iterator::StreamingIterator;
                let l = vengine::lang::zoo(&args[i + 1]);
                let bytes = std::fs::read(&args[i + 2]).unwrap();
                let mut p = tree_sitter::Parser::new();
                p.set_language(&l.language).unwrap();
                let tree = p.parse(&bytes, None).unwrap();
                println!("{}", vengine::model::xtree::XTree::build(&tree).render(&l.language, 200));
                match tree_sitter::Query::new(&l.language, &args[i + 3]) {
                    Err(e) => println!("query error: {e:?}"),
                    Ok(q) => {
                        let mut c = tree_sitter::QueryCursor::new();
                        let txt = vengine::model::text::Text::new(bytes.clone());
                        let rng = |v: &str| -> (usize, usize) { let mut it = v.split(','); (it.next().unwrap().parse().unwrap(), it.next().unwrap().parse().unwrap()) };
                        if let Ok(v) = std::env::var("VERIF_CBYTES") { let (a, b) = rng(&v); c.set_containing_byte_range(a..b); }
                        if let Ok(v) = std::env::var("VERIF_CPOINTS") { let (a, b) = rng(&v); c.set_containing_point_range(txt.point_of(a)..txt.point_of(b)); }
                        if let Ok(v) = std::env::var("VERIF_BYTES") { let (a, b) = rng(&v); c.set_byte_range(a..b); }
                        if let Ok(v) = std::env::var("VERIF_POINTS") { let (a, b) = rng(&v); c.set_point_range(txt.point_of(a)..txt.point_of(b)); }
                        if let Ok(v) = std::env::var("VERIF_LIMIT") { c.set_match_limit(v.parse().unwrap()); }
                        let mut ms = c.matches(&q, tree.root_node(), bytes.as_slice());
                        while let Some(m) = ms.next() {
                            let caps: Vec<String> = m.captures.iter().map(|c| format!("@{}={}[{}..{}]", q.capture_names()[c.index as usize], c.node.kind(), c.node.start_byte(), c.node.end_byte())).collect();
                            println!("match pattern {} id {}: {}", m.pattern_index, m.id(), caps.join(" "));
                        }
                    }
                }
                return;
            }
            "--generate-only" => {
                // vcheck --generate-only <work dir with src/grammar.json> <out name> <merge|nomerge>
                let work = PathBuf::from(&args[i + 1]);
                let g = std::fs::read_to_string(work.join("src/grammar.json")).unwrap();
                let opt = if args.get(i + 3).map(|s| s.as_str()) == Some("nomerge") { tree_sitter_generate::OptLevel::empty() } else { tree_sitter_generate::OptLevel::default() };
                match vengine::lang::generate_dir(&g, &work, &args[i + 2], opt) {
                    Ok(_) => std::process::exit(0),
                    Err(e) => {
                        eprintln!("{e}");
                        std::process::exit(3);
                    }
                }
            }
            "--loader-worker" => {
                vengine::checks::c19::loader_worker(&args[i + 1], args[i + 2].parse().unwrap());
                return;
            }
            "--cancel-resume" => {
                // debug: vcheck --cancel-resume <lang> <file> <first> <every>: cancel at callback <first>, then every <every>, resuming each time
                let l = vengine::lang::zoo(&args[i + 1]);
                let bytes = std::fs::read(&args[i + 2]).unwrap();
                let first: u64 = args[i + 3].parse().unwrap();
                let every: u64 = args[i + 4].parse().unwrap();
                let mut p = tree_sitter::Parser::new();
                p.set_language(&l.language).unwrap();
                let reference = p.parse(&bytes, None).unwrap();
                let mut p2 = tree_sitter::Parser::new();
                p2.set_language(&l.language).unwrap();
                let mut limit = first;
                let mut n = 0;
                let tree = loop {
                    let (t, st) = vengine::drive::parse(&mut p2, &bytes, None, &vengine::drive::Chunking::Whole, Some(limit));
                    n += 1;
                    if let Some(t) = t {
                        println!("finished after {n} drives (last cancelled={})", st.cancelled);
                        break t;
                    }
                    limit = every;
                    if n > 100000 {
                        panic!("no progress");
                    }
                };
                let a = vengine::model::xtree::XTree::build(&reference);
                let b = vengine::model::xtree::XTree::build(&tree);
                match vengine::model::xtree::xtree_diff(&a, &b, vengine::model::xtree::EqOpts::FULL) {
                    None => println!("same"),
                    Some((i, _, d)) => println!("DIFF at {}: {d}\nreference {}\nresumed   {}", a.path_kinds(i, &l.language), reference.root_node().to_sexp().chars().take(600).collect::<String>(), tree.root_node().to_sexp().chars().take(600).collect::<String>()),
                }
                return;
            }
            "--merge-diff" => {
                // debug: vcheck --merge-diff <grammar.json> <text>: trees with and without state merging
                let g = std::fs::read_to_string(&args[i + 1]).unwrap();
                for (label, opt) in [("merged", tree_sitter_generate::OptLevel::default()), ("unmerged", tree_sitter_generate::OptLevel::empty())] {
                    let (name, c) = vengine::lang::generate_c(&g, opt).unwrap();
                    let so = vengine::lang::compile_so(&c, None, "-O0", label).unwrap();
                    let l = vengine::lang::load_so(&so, &name).unwrap();
                    let mut p = tree_sitter::Parser::new();
                    p.set_language(&l.language).unwrap();
                    let t = p.parse(args[i + 2].as_bytes(), None).unwrap();
                    println!("{label}: {}", t.root_node().to_sexp());
                    let _ = std::fs::remove_file(&so);
                }
                return;
            }
            "--hl" => {
                // debug: vcheck --hl <mini|mini-nolocals|arith|tmpl|tmpl-combined> <file>
                let bytes = std::fs::read(&args[i + 2]).unwrap();
                vengine::checks::c17::debug_hl(&args[i + 1], &bytes);
                return;
            }
            "--list" => {
                for c in checks::registry() {
                    println!("{}", c.id());
                }
                return;
            }
            s if !s.starts_with("--") && id.is_empty() => id = s.to_string(),
            _ => usage(),
        }
        i += 1;
    }
    let check = match checks::find(&id) {
        Some(c) => c,
        None => {
            eprintln!("unknown check {id}");
            std::process::exit(2);
        }
    };
    if worker {
        runner::worker_main(check, tier, seed, strict, inflight);
        return;
    }
    if let Some(p) = replay {
        std::process::exit(runner::replay(check, &p, tier, seed));
    }
    let code = runner::run_check(check, runner::RunOpts { tier, seed, cases, jobs, strict, start_index: start });
    std::process::exit(code);
}
