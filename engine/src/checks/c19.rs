//! C19: grammar loading is safe under concurrency and after crashes.
//!
//! The driver (a case) owns the schedule: loader processes (this binary in `--loader-worker` mode, linked against
//! /repo/crates/loader built with `--cfg tree_sitter_verif`) stop at every protocol step and are released one at a
//! time in a tape-chosen order; one of them may be told to abort() at a chosen step.
use crate::core::{Check, Ctx, Tier};
use crate::lang;
use crate::tape::{fnv, Tape};
use serde_json::json;
use std::collections::BTreeMap;
use std::hash::{Hash, Hasher};
use std::io::{BufRead, BufReader, Write};
use std::path::{Path, PathBuf};
use std::process::{Child, ChildStdin, Command, Stdio};
use std::sync::mpsc::{channel, Receiver, Sender};
use std::sync::{Mutex, OnceLock};
use std::time::{Duration, Instant, SystemTime};

pub struct C19;

const NAME: &str = "vload";

fn grammar_json(marker: &str, scanner: bool) -> String {
    let ext = if scanner { r#""externals": [{"type": "SYMBOL", "name": "ext"}],"# } else { r#""externals": [],"# };
    let members = if scanner {
        format!(r#"[{{"type":"SYMBOL","name":"{marker}"}},{{"type":"SYMBOL","name":"ext"}}]"#)
    } else {
        format!(r#"[{{"type":"SYMBOL","name":"{marker}"}}]"#)
    };
    format!(
        r#"{{"name": "{NAME}", "rules": {{"source": {{"type": "REPEAT", "content": {{"type": "CHOICE", "members": {members}}}}}, "{marker}": {{"type": "PATTERN", "value": "[a-z]+"}}}}, "extras": [{{"type": "PATTERN", "value": "\\s"}}], "conflicts": [], "precedences": [], {ext} "inline": [], "supertypes": []}}"#
    )
}

const SCANNER_C: &str = r#"#include "tree_sitter/parser.h"
void *tree_sitter_vload_external_scanner_create(void) { return 0; }
void tree_sitter_vload_external_scanner_destroy(void *p) { (void)p; }
unsigned tree_sitter_vload_external_scanner_serialize(void *p, char *b) { (void)p; (void)b; return 0; }
void tree_sitter_vload_external_scanner_deserialize(void *p, const char *b, unsigned n) { (void)p; (void)b; (void)n; }
bool tree_sitter_vload_external_scanner_scan(void *p, TSLexer *l, const bool *v) { (void)p; (void)l; (void)v; return false; }
"#;

struct Gen {
    json: String,
    c: String,
}

fn gens(scanner: bool) -> &'static [Gen; 2] {
    static G: OnceLock<[[Gen; 2]; 2]> = OnceLock::new();
    let all = G.get_or_init(|| {
        let mk = |m: &str, s: bool| {
            let j = grammar_json(m, s);
            let (_, c) = lang::generate_c(&j, Default::default()).unwrap_or_else(|e| panic!("INFRA: loader test grammar rejected: {e}"));
            Gen { json: j, c }
        };
        [[mk("marker_a", false), mk("marker_b", false)], [mk("marker_a", true), mk("marker_b", true)]]
    });
    &all[scanner as usize]
}

fn write_sources(src: &Path, g: &Gen, scanner: bool, mtime: SystemTime, scanner_mtime: SystemTime) {
    std::fs::create_dir_all(src.join("tree_sitter")).unwrap();
    let put = |p: PathBuf, content: &str| {
        let tmp = p.with_extension("tmpw");
        std::fs::write(&tmp, content).unwrap();
        let f = std::fs::File::options().write(true).open(&tmp).unwrap();
        f.set_modified(mtime).unwrap();
        drop(f);
        std::fs::rename(&tmp, &p).unwrap();
    };
    put(src.join("tree_sitter/parser.h"), tree_sitter_generate::PARSER_HEADER);
    put(src.join("tree_sitter/alloc.h"), tree_sitter_generate::ALLOC_HEADER);
    put(src.join("tree_sitter/array.h"), tree_sitter_generate::ARRAY_HEADER);
    put(src.join("grammar.json"), &g.json);
    put(src.join("parser.c"), &g.c);
    if scanner {
        let p = src.join("scanner.c");
        put(p.clone(), SCANNER_C);
        let f = std::fs::File::options().write(true).open(&p).unwrap();
        f.set_modified(scanner_mtime).unwrap();
    }
}

/// marker of a library file, read through a private copy (dlopen caches by path)
fn marker_of(lib: &Path, scratch: &Path, n: &mut u64) -> Result<String, String> {
    *n += 1;
    let copy = scratch.join(format!("probe-{}-{}.so", std::process::id(), *n));
    std::fs::copy(lib, &copy).map_err(|e| format!("copy: {e}"))?;
    let r = (|| unsafe {
        let l = libloading::Library::new(&copy).map_err(|e| format!("dlopen: {e}"))?;
        let f: libloading::Symbol<unsafe extern "C" fn() -> *const tree_sitter::ffi::TSLanguage> = l.get(format!("tree_sitter_{NAME}").as_bytes()).map_err(|e| format!("dlsym: {e}"))?;
        let raw = f();
        let language = tree_sitter::Language::from_raw(raw);
        let m = marker_of_language(&language);
        drop(language);
        let _ = l.close();
        Ok(m)
    })();
    let _ = std::fs::remove_file(&copy);
    r
}

fn marker_of_language(l: &tree_sitter::Language) -> String {
    for m in ["marker_a", "marker_b"] {
        if l.id_for_node_kind(m, true) != 0 {
            return m.to_string();
        }
    }
    "none".to_string()
}

// ------------------------------------------------------------------------------------------------ worker side

thread_local! {
    static TID: std::cell::Cell<usize> = const { std::cell::Cell::new(0) };
}
static CHANNELS: OnceLock<Vec<Mutex<Receiver<String>>>> = OnceLock::new();

/// `vcheck --loader-worker <src dir> <threads>`: each thread performs one load; every protocol step is reported on
/// stdout as `at <tid> <point>` and waits for `go <tid>` / `abort <tid>` on stdin (unless VERIF_LOADER_FREE=1).
pub fn loader_worker(src: &str, threads: usize) {
    let free = std::env::var("VERIF_LOADER_FREE").is_ok();
    let mut txs: Vec<Sender<String>> = vec![];
    let mut rxs = vec![];
    for _ in 0..threads {
        let (tx, rx) = channel::<String>();
        txs.push(tx);
        rxs.push(Mutex::new(rx));
    }
    let _ = CHANNELS.set(rxs);
    #[cfg(tree_sitter_verif)]
    if !free {
        tree_sitter_loader::verif::set_hook(Some(Box::new(|point: &str| {
            let tid = TID.with(|t| t.get());
            {
                let out = std::io::stdout();
                let mut o = out.lock();
                let _ = writeln!(o, "at {tid} {point}");
                let _ = o.flush();
            }
            let rx = CHANNELS.get().unwrap()[tid].lock().unwrap();
            match rx.recv() {
                Ok(m) if m == "abort" => std::process::abort(),
                Ok(_) => {}
                Err(_) => std::process::exit(3),
            }
        })));
    }
    #[cfg(not(tree_sitter_verif))]
    if !free {
        eprintln!("INFRA: built without --cfg tree_sitter_verif");
        std::process::exit(4);
    }
    if !free {
        std::thread::spawn(move || {
            let stdin = std::io::stdin();
            for line in stdin.lock().lines() {
                let Ok(line) = line else { break };
                let mut it = line.split_whitespace();
                let (Some(cmd), Some(tid)) = (it.next(), it.next()) else { continue };
                if let Ok(tid) = tid.parse::<usize>() {
                    if let Some(tx) = txs.get(tid) {
                        let _ = tx.send(cmd.to_string());
                    }
                }
            }
            // driver gone
            std::process::exit(3);
        });
    }
    let mut hs = vec![];
    for tid in 0..threads {
        let src = src.to_string();
        hs.push(std::thread::spawn(move || {
            TID.with(|t| t.set(tid));
            let started = Instant::now();
            let res = (|| -> Result<String, String> {
                let loader = tree_sitter_loader::Loader::new().map_err(|e| format!("LoaderNew {e}"))?;
                let srcp = PathBuf::from(&src);
                let cfg = tree_sitter_loader::CompileConfig::new(&srcp, None, None);
                match loader.load_language_at_path(cfg) {
                    Ok(l) => Ok(marker_of_language(&l)),
                    Err(e) => {
                        let dbg = format!("{e:?}");
                        let kind = dbg.split(|c: char| !c.is_alphanumeric()).next().unwrap_or("Error").to_string();
                        Err(format!("{kind} {}", format!("{e}").replace('\n', " ")))
                    }
                }
            })();
            let ms = started.elapsed().as_millis();
            let out = std::io::stdout();
            let mut o = out.lock();
            match res {
                Ok(m) => {
                    let _ = writeln!(o, "done {tid} ok {m} {ms}");
                }
                Err(e) => {
                    let _ = writeln!(o, "done {tid} err {e}");
                }
            }
            let _ = o.flush();
        }));
    }
    for h in hs {
        let _ = h.join();
    }
    std::process::exit(0);
}

// ------------------------------------------------------------------------------------------------ driver side

#[derive(Clone, Debug, PartialEq)]
enum St {
    Running,         // released, next message expected soon
    Paused(String),  // at a point, waiting for go
    LockWait,        // released from lock:lost; reports when the lock disappears or the wait times out
    Background,      // released from `compiling` without waiting for the compiler: others move meanwhile
    Free,            // a loader without pauses, started while a compile runs in the background
    Done(Result<String, String>),
    Dead,
}

struct Proc {
    child: Child,
    stdin: Option<ChildStdin>,
    threads: usize,
}

struct Msg {
    proc_: usize,
    line: Option<String>, // None = EOF
}

fn spawn_worker(exe: &Path, src: &Path, threads: usize, libdir: &Path, cache: &Path, free: bool, timeout_ms: u64, idx: usize, tx: &Sender<Msg>) -> Proc {
    let mut cmd = Command::new(exe);
    cmd.arg("--loader-worker").arg(src).arg(threads.to_string());
    cmd.env("TREE_SITTER_LIBDIR", libdir).env("XDG_CACHE_HOME", cache).env("HOME", cache).env("TREE_SITTER_VERIF_LOCK_TIMEOUT_MS", timeout_ms.to_string());
    cmd.env_remove("VERIF_LOADER_FREE");
    if free {
        cmd.env("VERIF_LOADER_FREE", "1");
    }
    cmd.stdin(Stdio::piped()).stdout(Stdio::piped()).stderr(Stdio::null());
    let mut child = cmd.spawn().unwrap_or_else(|e| panic!("INFRA: spawn loader worker: {e}"));
    let stdout = child.stdout.take().unwrap();
    let stdin = child.stdin.take();
    let tx = tx.clone();
    std::thread::spawn(move || {
        let r = BufReader::new(stdout);
        for line in r.lines() {
            match line {
                Ok(l) => {
                    if tx.send(Msg { proc_: idx, line: Some(l) }).is_err() {
                        return;
                    }
                }
                Err(_) => break,
            }
        }
        let _ = tx.send(Msg { proc_: idx, line: None });
    });
    Proc { child, stdin, threads }
}

fn lock_path_for(cache: &Path, libdir: &Path) -> PathBuf {
    let mut out = libdir.join(NAME);
    out.set_extension(std::env::consts::DLL_EXTENSION);
    let mut hasher = std::hash::DefaultHasher::new();
    out.hash(&mut hasher);
    cache.join("tree-sitter").join("lock").join(format!("{NAME}-{:x}.lock", hasher.finish()))
}

impl Check for C19 {
    fn id(&self) -> &'static str {
        "C19"
    }
    fn rule(&self) -> String {
        "case = cache state (no library / stale library built from the previous source generation with an older mtime / fresh library; optionally a leftover lock file or a leftover temp file; with or without scanner.c) x 2-8 loaders (separate processes; 30% several threads of one process) that each perform Loader::load_language_at_path on the same grammar directory with a private TREE_SITTER_LIBDIR and XDG_CACHE_HOME x a SCHEDULE owned by the driver: every loader stops at each protocol step (decided:recompile|fresh, lock:won, lock:lost, compiling, compiled, renamed, unlocking, waited, loading - guarded hook points) and the driver releases one loader at a time in a tape-chosen order; optionally one loader is told to abort() at a tape-chosen step (crash point); afterwards 1-2 late loaders run without pauses. Lock timeout shortened to 1.5 s through the guarded override. Oracles: (1) every loader that reports success returns the marker of the CURRENT sources; (2) no loader fails with a library/symbol error and, whenever the driver looks (after every release), an existing library file dlopens (through a private copy) and carries the old or the new marker; (3) without a crash every loader succeeds; (4) after a crash every late loader succeeds with the current marker within lock timeout + 90 s (generous: a loaded machine must not look like a hang). evaluations = loader calls. Non-trivial: two loaders between their staleness decision and their load at the same time, or a crash between lock:won and unlocking; distinct by hash(state, schedule).".into()
    }
    fn cases(&self, tier: Tier) -> u64 {
        match tier {
            Tier::Quick => 400,
            Tier::Thorough => 3000,
        }
    }
    fn langs(&self) -> Vec<&'static str> {
        vec![]
    }
    fn level(&self) -> &'static str {
        "fault_enumeration"
    }
    fn watchdog_s(&self) -> u64 {
        400
    }
    fn floors(&self) -> Vec<(&'static str, f64)> {
        vec![("window:overlap", 0.5), ("crash:inside_lock", 0.10), ("state:stale", 0.2), ("mode:threads", 0.15), ("scanner", 0.2)]
    }
    fn run_case(&self, ctx: &mut Ctx, t: &mut Tape) {
        static COUNTER: std::sync::atomic::AtomicU64 = std::sync::atomic::AtomicU64::new(0);
        let k = COUNTER.fetch_add(1, std::sync::atomic::Ordering::SeqCst);
        let exe = std::env::current_exe().unwrap();
        let dir = lang::work_dir().join("c19").join(format!("{}-{k}", std::process::id()));
        let _ = std::fs::remove_dir_all(&dir);
        let (src, libdir, cache, scratch) = (dir.join("grammar").join("src"), dir.join("lib"), dir.join("cache"), dir.join("scratch"));
        for d in [&src, &libdir, &cache, &scratch] {
            std::fs::create_dir_all(d).unwrap();
        }
        let cleanup = |d: &Path| {
            let _ = std::fs::remove_dir_all(d);
        };
        let scanner = t.pct(30);
        ctx.label_if(scanner, "scanner");
        let g = gens(scanner);
        let now = SystemTime::now();
        let old = now - Duration::from_secs(100);
        let older = now - Duration::from_secs(200);
        let mut lib = libdir.join(NAME);
        lib.set_extension(std::env::consts::DLL_EXTENSION);
        // ---- initial cache state
        let state = t.weighted(&[35, 40, 25]);
        let state_name = ["no_library", "stale", "fresh"][state];
        ctx.label(format!("state:{state_name}"));
        let build = |gen: &Gen, to: &Path, mtime: SystemTime| {
            let so = lang::compile_so(&gen.c, if scanner { Some(SCANNER_C) } else { None }, "-O0", "c19").unwrap_or_else(|e| panic!("INFRA: cc: {e}"));
            let tmp = to.with_extension("tmpw");
            std::fs::copy(&so, &tmp).unwrap();
            let f = std::fs::File::options().write(true).open(&tmp).unwrap();
            f.set_modified(mtime).unwrap();
            drop(f);
            std::fs::rename(&tmp, to).unwrap();
        };
        let oldest = now - Duration::from_secs(300);
        match state {
            0 => write_sources(&src, &g[1], scanner, old, old),
            1 => {
                build(&g[0], &lib, older);
                // only parser.c was regenerated: the scanner may be older than the library
                let scanner_old = scanner && t.pct(60);
                ctx.label_if(scanner_old, "state:stale_parser_only");
                write_sources(&src, &g[1], scanner, old, if scanner_old { oldest } else { old });
            }
            _ => {
                write_sources(&src, &g[1], scanner, older, older);
                build(&g[1], &lib, old);
            }
        }
        let lock_path = lock_path_for(&cache, &libdir);
        let leftover_lock = t.pct(10);
        if leftover_lock {
            ctx.label("state:leftover_lock");
            std::fs::create_dir_all(lock_path.parent().unwrap()).unwrap();
            std::fs::write(&lock_path, b"").unwrap();
        }
        if t.pct(12) {
            ctx.label("state:leftover_temp");
            std::fs::write(libdir.join(format!(".{NAME}.so.99999.ThreadId(1)")), b"\x7fELFgarbage").unwrap();
        }
        // ---- loaders
        let timeout_ms = 1500u64;
        let (tx, rx) = channel::<Msg>();
        let mut procs: Vec<Proc> = vec![];
        let thread_mode = t.pct(30);
        ctx.label_if(thread_mode, "mode:threads");
        let n = t.range(2, 9).min(8);
        // loader ids: (proc, tid)
        let mut ids: Vec<(usize, usize)> = vec![];
        if thread_mode {
            let nt = t.range(2, 5).min(n);
            procs.push(spawn_worker(&exe, &src, nt, &libdir, &cache, false, timeout_ms, 0, &tx));
            for i in 0..nt {
                ids.push((0, i));
            }
            for p in 1..=(n - nt).min(3) {
                procs.push(spawn_worker(&exe, &src, 1, &libdir, &cache, false, timeout_ms, p, &tx));
                ids.push((p, 0));
            }
        } else {
            for p in 0..n {
                procs.push(spawn_worker(&exe, &src, 1, &libdir, &cache, false, timeout_ms, p, &tx));
                ids.push((p, 0));
            }
        }
        // crash point: whichever loader is released from `point` for the (nth+1)-th time aborts instead
        let crash: Option<(usize, String)> = if t.pct(45) {
            let point = (*t.pick(&["lock:won", "compiling", "compiled", "renamed", "unlocking", "lock:won", "compiled", "decided:recompile", "lock:lost", "loading", "waited", "decided:fresh"])).to_string();
            let nth = t.weighted(&[75, 25]);
            Some((nth, point))
        } else {
            None
        };
        let mut crash_seen = 0usize;
        let mut st: BTreeMap<(usize, usize), St> = ids.iter().map(|i| (*i, St::Running)).collect();
        let mut history: Vec<String> = vec![];
        let mut crashed = false;
        let mut crash_inside_lock = false;
        let mut overlap = false;
        let mut probes = 0u64;
        let mut fails: Vec<(String, String)> = vec![];
        let deadline = Instant::now() + Duration::from_secs(90);
        // message pump: apply one message to the state table
        let apply = |m: Msg, st: &mut BTreeMap<(usize, usize), St>, procs: &Vec<Proc>, history: &mut Vec<String>| {
            match m.line {
                None => {
                    for tid in 0..procs[m.proc_].threads {
                        let e = st.get_mut(&(m.proc_, tid)).unwrap();
                        if !matches!(e, St::Done(_)) {
                            *e = St::Dead;
                        }
                    }
                }
                Some(l) => {
                    let mut it = l.splitn(3, ' ');
                    let (kind, tid, rest) = (it.next().unwrap_or(""), it.next().and_then(|x| x.parse::<usize>().ok()).unwrap_or(0), it.next().unwrap_or("").to_string());
                    let key = (m.proc_, tid);
                    match kind {
                        "at" => {
                            history.push(format!("{}.{} at {}", m.proc_, tid, rest));
                            st.insert(key, St::Paused(rest));
                        }
                        "done" => {
                            history.push(format!("{}.{} done {}", m.proc_, tid, rest));
                            let r = if let Some(x) = rest.strip_prefix("ok ") { Ok(x.split(' ').next().unwrap_or("").to_string()) } else { Err(rest.trim_start_matches("err ").to_string()) };
                            st.insert(key, St::Done(r));
                        }
                        _ => {}
                    }
                }
            }
        };
        loop {
            // wait until nobody is Running (LockWait loaders report on their own time)
            loop {
                let running = st.values().any(|s| *s == St::Running);
                if !running {
                    break;
                }
                match rx.recv_timeout(Duration::from_secs(30)) {
                    Ok(m) => apply(m, &mut st, &procs, &mut history),
                    Err(_) => {
                        ctx.out.discard = Some("loader worker silent for 30 s".into());
                        for p in procs.iter_mut() {
                            let _ = p.child.kill();
                            let _ = p.child.wait();
                        }
                        cleanup(&dir);
                        return;
                    }
                }
            }
            // drain pending messages
            while let Ok(m) = rx.try_recv() {
                apply(m, &mut st, &procs, &mut history);
            }
            // invariant: the library file, if present, is complete
            if lib.exists() {
                match marker_of(&lib, &scratch, &mut probes) {
                    Ok(m) if m == "marker_a" || m == "marker_b" => {}
                    Ok(m) => fails.push(("C19:library_file:wrong_content".into(), format!("library has marker {m}"))),
                    Err(e) => {
                        if lib.exists() {
                            fails.push(("C19:library_file:partial_or_invalid".into(), format!("the library at the output path does not load: {e}")));
                        }
                    }
                }
            }
            // overlap classification: two loaders between decision and load
            let inside = st.values().filter(|s| matches!(s, St::Paused(p) if p != "loading" && !p.starts_with("decided")) || matches!(s, St::LockWait | St::Background)).count();
            if inside >= 2 {
                overlap = true;
            }
            let paused: Vec<(usize, usize)> = st.iter().filter(|(_, s)| matches!(s, St::Paused(_))).map(|(k, _)| *k).collect();
            if paused.is_empty() {
                let waiting = st.values().any(|s| *s == St::LockWait || *s == St::Background);
                if !waiting {
                    break;
                }
                // only lock waiters left: they report when the lock goes away or their wait times out
                match rx.recv_timeout(Duration::from_millis(timeout_ms + 90_000)) {
                    Ok(m) => apply(m, &mut st, &procs, &mut history),
                    Err(_) => {
                        fails.push(("C19:hang:lock_waiter_never_returns".into(), "a loader waiting for the lock neither proceeded nor timed out".into()));
                        break;
                    }
                }
                continue;
            }
            if Instant::now() > deadline {
                ctx.out.discard = Some("case exceeded 90 s".into());
                break;
            }
            // choose who moves
            let who = paused[t.below(paused.len())];
            let St::Paused(point) = st[&who].clone() else { unreachable!() };
            let mut do_abort = false;
            if !crashed {
                if let Some((nth, p)) = crash.as_ref() {
                    if *p == point {
                        do_abort = crash_seen == *nth;
                        crash_seen += 1;
                    }
                }
            }
            let p = &mut procs[who.0];
            if let Some(sin) = p.stdin.as_mut() {
                let _ = writeln!(sin, "{} {}", if do_abort { "abort" } else { "go" }, who.1);
                let _ = sin.flush();
            }
            history.push(format!("{}.{} {} from {}", who.0, who.1, if do_abort { "ABORT" } else { "go" }, point));
            if do_abort {
                crashed = true;
                if ["lock:won", "compiling", "compiled", "renamed", "unlocking"].contains(&point.as_str()) {
                    crash_inside_lock = true;
                }
                // the whole process dies
                for tid in 0..p.threads {
                    st.insert((who.0, tid), St::Dead);
                }
                let _ = p.child.wait();
                continue;
            }
            let background = point == "compiling" && t.pct(60);
            st.insert(who, if point == "lock:lost" { St::LockWait } else if background { St::Background } else { St::Running });
            if background {
                ctx.label("compile:in_background");
                // loaders without pauses arrive while the compiler runs; the driver keeps looking at the library file
                let k = 1 + t.below(2);
                for j in 0..k {
                    let delay = *t.pick(&[0u64, 5, 20, 60]);
                    std::thread::sleep(Duration::from_millis(delay));
                    let pi = procs.len();
                    procs.push(spawn_worker(&exe, &src, 1, &libdir, &cache, true, timeout_ms, pi, &tx));
                    ids.push((pi, 0));
                    st.insert((pi, 0), St::Free);
                    history.push(format!("{pi}.0 started without pauses (+{delay} ms, {j})"));
                }
                let t0 = Instant::now();
                while st[&who] == St::Background && t0.elapsed() < Duration::from_millis(1500) {
                    if lib.exists() {
                        if let Err(e) = marker_of(&lib, &scratch, &mut probes) {
                            if lib.exists() {
                                fails.push(("C19:library_file:partial_or_invalid".into(), format!("while a compile was running the library at the output path did not load: {e}")));
                                break;
                            }
                        }
                    }
                    if let Ok(m) = rx.recv_timeout(Duration::from_millis(3)) {
                        apply(m, &mut st, &procs, &mut history);
                    }
                }
            }
            if point == "unlocking" {
                // give lock waiters the chance to observe the removal before the next choice: wait for each of them
                let t0 = Instant::now();
                while st.values().any(|s| *s == St::LockWait || *s == St::Running) && t0.elapsed() < Duration::from_millis(2500) {
                    if let Ok(m) = rx.recv_timeout(Duration::from_millis(100)) {
                        apply(m, &mut st, &procs, &mut history);
                    }
                }
            }
        }
        // loaders without pauses: bounded wait for their result
        let t0 = Instant::now();
        while st.values().any(|s| *s == St::Free) && t0.elapsed() < Duration::from_millis(timeout_ms + 90_000) {
            if let Ok(m) = rx.recv_timeout(Duration::from_millis(200)) {
                apply(m, &mut st, &procs, &mut history);
            }
        }
        for (key, s) in st.iter() {
            if *s == St::Free {
                fails.push(("C19:hang:free_loader_no_result".into(), format!("loader {}.{} (no pauses) gave no result within the bound", key.0, key.1)));
            }
        }
        for p in procs.iter_mut() {
            drop(p.stdin.take());
            let _ = p.child.kill();
            let _ = p.child.wait();
        }
        ctx.label_if(overlap, "window:overlap");
        ctx.label_if(crash_inside_lock, "crash:inside_lock");
        ctx.label_if(crashed, "crash:any");
        // ---- late loaders
        let mut late_results: Vec<Result<String, String>> = vec![];
        let n_late = if crashed || leftover_lock { 1 + t.below(2) } else { t.below(2) };
        for li in 0..n_late {
            let (ltx, lrx) = channel::<Msg>();
            let mut p = spawn_worker(&exe, &src, 1, &libdir, &cache, true, timeout_ms, 0, &ltx);
            let t0 = Instant::now();
            let mut res: Option<Result<String, String>> = None;
            while t0.elapsed() < Duration::from_millis(timeout_ms + 90_000) {
                match lrx.recv_timeout(Duration::from_millis(200)) {
                    Ok(Msg { line: Some(l), .. }) => {
                        if let Some(rest) = l.strip_prefix("done 0 ") {
                            res = Some(if let Some(x) = rest.strip_prefix("ok ") { Ok(x.split(' ').next().unwrap_or("").to_string()) } else { Err(rest.trim_start_matches("err ").to_string()) });
                            break;
                        }
                    }
                    Ok(Msg { line: None, .. }) => break,
                    Err(_) => {}
                }
            }
            let _ = p.child.kill();
            let _ = p.child.wait();
            history.push(format!("late{li} {:?}", res));
            late_results.push(res.unwrap_or_else(|| Err("Hang no result within the bound".into())));
        }
        // ---- oracles over the history
        let hist = || history.join("\n    ");
        let setting = format!("state {state_name}{}{}, {} loaders{}, crash {:?}", if leftover_lock { " + leftover lock" } else { "" }, if scanner { " + scanner" } else { "" }, ids.len(), if thread_mode { " (threads)" } else { "" }, crash);
        for (sig, msg) in &fails {
            if ctx.fail(sig.clone(), format!("{msg}\n{setting}\nhistory:\n    {}", hist())) {
                cleanup(&dir);
                return;
            }
        }
        for (key, s) in &st {
            ctx.out.inner += 1;
            match s {
                St::Done(Ok(m)) => {
                    if m != "marker_b" {
                        ctx.fail("C19:success_with_stale_library", format!("loader {}.{} returned success with marker {m}; the current sources define marker_b\n{setting}\nhistory:\n    {}", key.0, key.1, hist()));
                        cleanup(&dir);
                        return;
                    }
                }
                St::Done(Err(e)) => {
                    let kind = e.split(' ').next().unwrap_or("");
                    let sig = if kind == "Library" || kind == "Symbol" {
                        "C19:loader_saw_partial_library".to_string()
                    } else if kind == "LockFileTimeout" && (leftover_lock || crash_inside_lock) {
                        "C19:lock_left_behind:LockFileTimeout".to_string()
                    } else if !crashed && !leftover_lock {
                        format!("C19:error_without_crash:{kind}")
                    } else {
                        String::new()
                    };
                    if !sig.is_empty() && ctx.fail(sig, format!("loader {}.{} failed: {e}\n{setting}\nhistory:\n    {}", key.0, key.1, hist())) {
                        cleanup(&dir);
                        return;
                    }
                }
                _ => {}
            }
        }
        for (i, r) in late_results.iter().enumerate() {
            ctx.out.inner += 1;
            match r {
                Ok(m) if m == "marker_b" => {}
                Ok(m) => {
                    ctx.fail("C19:late:success_with_stale_library", format!("late loader {i} returned marker {m}\n{setting}\nhistory:\n    {}", hist()));
                    cleanup(&dir);
                    return;
                }
                Err(e) => {
                    let kind = e.split(' ').next().unwrap_or("");
                    let sig = if kind == "LockFileTimeout" { "C19:late:lock_left_behind:LockFileTimeout".to_string() } else { format!("C19:late:error:{kind}") };
                    if ctx.fail(sig, format!("late loader {i} failed: {e}\n{setting}\nhistory:\n    {}", hist())) {
                        cleanup(&dir);
                        return;
                    }
                }
            }
        }
        ctx.out.nontrivial = overlap || crash_inside_lock;
        ctx.out.hash = fnv(format!("{setting}|{}", history.iter().filter(|h| h.contains(" go ") || h.contains("ABORT")).cloned().collect::<Vec<_>>().join(",")).as_bytes());
        if ctx.want_sample {
            ctx.out.sample = json!({"setting": setting, "steps": history.len(), "history_head": history.iter().take(12).collect::<Vec<_>>()});
        }
        cleanup(&dir);
    }
}
