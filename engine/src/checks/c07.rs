//! C07: no memory-unsafe behaviour, assertion failure or leak for any conforming use.
//! Runs in the ASan+UBSan build: process death / sanitizer report = violation (caught by the parent);
//! a counting allocator installed through ts_set_allocator checks "freed exactly once, nothing left".
use crate::core::{Check, Ctx, Tier};
use crate::drive::{self, Chunking};
use crate::gen::doc::{self, DocClass};
use crate::lang::{self, Lang};
use crate::model::text::{show_bytes, Text};
use crate::tape::{fnv, Tape};
use serde_json::json;
use std::collections::HashMap;
use std::ffi::c_void;
use std::ops::ControlFlow;
use std::sync::atomic::{AtomicU64, Ordering};
use std::sync::{Mutex, Once};
use streaming_iterator::StreamingIterator;
use tree_sitter::{InputEdit, Parser, Point, Query, QueryCursor, QueryCursorOptions, Range, Tree};

pub struct C07;

// ------------------------------------------------------------------ counting allocator
static LIVE: Mutex<Option<HashMap<usize, usize>>> = Mutex::new(None);
static UNKNOWN_FREE: AtomicU64 = AtomicU64::new(0);
static ALLOCS: AtomicU64 = AtomicU64::new(0);

fn live_insert(p: *mut c_void, n: usize) {
    if p.is_null() {
        return;
    }
    ALLOCS.fetch_add(1, Ordering::Relaxed);
    if std::env::var_os("VERIF_ALLOC_BT").is_some() {
        let bt = std::backtrace::Backtrace::force_capture().to_string();
        BACKTRACES.lock().unwrap().get_or_insert_with(HashMap::new).insert(p as usize, bt);
    }
    let mut g = LIVE.lock().unwrap();
    g.get_or_insert_with(HashMap::new).insert(p as usize, n);
}
static BACKTRACES: Mutex<Option<HashMap<usize, String>>> = Mutex::new(None);
/// VERIF_ALLOC_BT=1: allocation backtraces of the allocations that are still live (debugging aid for replays)
pub fn live_backtraces() -> String {
    let g = LIVE.lock().unwrap();
    let b = BACKTRACES.lock().unwrap();
    let mut out = String::new();
    if let (Some(m), Some(b)) = (&*g, &*b) {
        for k in m.keys() {
            if let Some(bt) = b.get(k) {
                let lines: Vec<&str> = bt.lines().filter(|l| l.contains("ts_") || l.contains("tree_sitter") || l.contains("lib/src")).take(24).collect();
                out.push_str(&format!("\n--- live allocation {k:#x}:\n{}", lines.join("\n")));
            }
        }
    }
    out
}
fn live_remove(p: *mut c_void) {
    if p.is_null() {
        return;
    }
    let mut g = LIVE.lock().unwrap();
    if g.get_or_insert_with(HashMap::new).remove(&(p as usize)).is_none() {
        UNKNOWN_FREE.fetch_add(1, Ordering::Relaxed);
    }
}
unsafe extern "C" fn c_malloc(n: usize) -> *mut c_void {
    let p = libc::malloc(n);
    live_insert(p, n);
    p
}
unsafe extern "C" fn c_calloc(a: usize, b: usize) -> *mut c_void {
    let p = libc::calloc(a, b);
    live_insert(p, a.saturating_mul(b));
    p
}
unsafe extern "C" fn c_realloc(p: *mut c_void, n: usize) -> *mut c_void {
    if !p.is_null() {
        live_remove(p);
    }
    let q = libc::realloc(p, n);
    live_insert(q, n);
    q
}
unsafe extern "C" fn c_free(p: *mut c_void) {
    if !p.is_null() {
        live_remove(p);
        libc::free(p);
    }
}
static INSTALL: Once = Once::new();
pub fn install_allocator() {
    INSTALL.call_once(|| unsafe {
        tree_sitter::set_allocator(Some(tree_sitter::Allocator { malloc: c_malloc, calloc: c_calloc, realloc: c_realloc, free: c_free }));
    });
}
pub fn live_summary() -> (usize, usize) {
    let g = LIVE.lock().unwrap();
    match &*g {
        Some(m) => (m.len(), m.values().sum()),
        None => (0, 0),
    }
}
pub fn take_unknown_frees() -> u64 {
    UNKNOWN_FREE.swap(0, Ordering::Relaxed)
}
pub fn live_clear() {
    let mut g = LIVE.lock().unwrap();
    if let Some(m) = g.as_mut() {
        m.clear();
    }
}

const LANGS: &[&str] = &["mini", "arith", "json", "glr", "indent", "heredoc", "tmpl"];

fn any_string(t: &mut Tape, lang: &Lang) -> String {
    // query-ish garbage
    let n = t.below(60);
    let mut s = String::new();
    let kinds: Vec<String> = (0..lang.language.node_kind_count() as u16).filter_map(|i| lang.language.node_kind_for_id(i).map(|x| x.to_string())).collect();
    for _ in 0..n {
        match t.below(12) {
            0 => s.push('('),
            1 => s.push(')'),
            2 => s.push_str(*t.pick(&["@a", "@b.c", "@", "#eq?", "(#match? @a \"x\")", "(#set! a b)", "!f", ".", "_", "(_)", "*", "+", "?", "[", "]", ":", "\"", "\\", ";c\n", "/", "MISSING", "ERROR"])),
            3 | 4 => {
                if !kinds.is_empty() {
                    s.push_str(t.pick(&kinds).as_str());
                }
            }
            5 => s.push(' '),
            6 => s.push(t.u8() as char),
            7 => s.push_str("\u{e9}\u{0}\u{1F600}"),
            _ => s.push_str(*t.pick(&["left:", "name:", "(identifier)", "(number)", "\"(\"", "\";\""])),
        }
    }
    s
}

fn wild_point(t: &mut Tape, text: &Text, byte: usize) -> Point {
    match t.below(5) {
        0 => Point { row: text.line_count() + t.below(1000), column: t.below(1000) },
        1 => Point { row: 0, column: byte },
        _ => text.point_of(byte.min(text.len())),
    }
}

impl Check for C07 {
    fn id(&self) -> &'static str {
        "C07"
    }
    fn rule(&self) -> String {
        "runs in the AddressSanitizer + UBSan(trap) build of the engine, the C runtime and the generated parsers, with a counting allocator installed through ts_set_allocator. case = (65%) the case runner of another property (C01, C02, C04, C05, C06, C09, C10, C11, C13) re-executed - oracle verdicts ignored, only process health and allocation balance count - or (35%) an adversarial API program of 5-60 operations over a pool of parsers, trees, queries and cursors: parse of any bytes with any chunking and an arbitrary old tree of the same language, edits with start <= old_end and arbitrary (ordered) points also beyond the document, clone/drop in any order, accepted included-range lists, language switches, reset, cancellation through the progress callback then resume or reset, logger, dot graphs to /dev/null, Query::new on random and mutated query text, cursors with match limit 1..64, byte/point/containing ranges, max_start_depth, query progress-callback cancellation, remove(), node getters and cursor moves with extreme indices/offsets, LookaheadIterator on every state id incl. out-of-range ones, changed_ranges between arbitrary trees. Violation: worker death by signal/abort, any sanitizer report, a free of an unknown pointer, or live allocations after every handle of the case was dropped. Non-trivial: API program with >= 5 operations incl. a re-parse with an old tree and a query execution or cursor walk, or a re-executed sub-case; distinct by hash of the tape prefix.".into()
    }
    fn cases(&self, tier: Tier) -> u64 {
        match tier {
            Tier::Quick => 8_000,
            Tier::Thorough => 150_000,
        }
    }
    fn langs(&self) -> Vec<&'static str> {
        LANGS.to_vec()
    }
    fn floors(&self) -> Vec<(&'static str, f64)> {
        vec![("api:cancelled_parse", 0.05), ("api:random_query", 0.08), ("api:program", 0.25), ("sub:case", 0.4)]
    }
    fn watchdog_s(&self) -> u64 {
        300
    }
    fn run_case(&self, ctx: &mut Ctx, t: &mut Tape) {
        // process-lifetime query caches of the highlight/tags runners are built before the counting allocator sees them
        crate::checks::c17::warm();
        crate::checks::c18::warm();
        install_allocator();
        let before = live_summary();
        if before.0 != 0 {
            // leftovers of an earlier case would be misattributed
            live_clear();
        }
        UNKNOWN_FREE.store(0, Ordering::Relaxed);
        let scenario;
        if t.pct(65) {
            let subs: Vec<&'static dyn Check> = vec![&crate::checks::session::C01, &crate::checks::c02::C02, &crate::checks::session::C04, &crate::checks::c05::C05, &crate::checks::c06::C06, &crate::checks::c09::C09, &crate::checks::c10::C10, &crate::checks::c11::C11, &crate::checks::c13::C13, &crate::checks::c17::C17, &crate::checks::c18::C18];
            let k = t.weighted(&[16, 18, 10, 10, 10, 12, 8, 8, 8, 9, 7]);
            let sub = subs[k];
            scenario = format!("sub:{}", sub.id());
            ctx.label("sub:case");
            ctx.label(scenario.clone());
            let mut sctx = Ctx::new(false, ctx.tier, ctx.seed, Default::default());
            sctx.want_sample = false;
            sub.run_case(&mut sctx, t);
            // verdicts of the re-executed oracle are not C07's business
            ctx.out.nontrivial = sctx.out.discard.is_none();
            drop(sctx);
        } else {
            scenario = "api".to_string();
            ctx.label("api:program");
            api_program(ctx, t);
        }
        ctx.out.inner += 1;
        let unknown = UNKNOWN_FREE.load(Ordering::Relaxed);
        if unknown > 0 {
            ctx.fail(format!("C07:free_of_unknown_pointer:{scenario}"), format!("{unknown} free/realloc call(s) named a pointer that is not live"));
        }
        let (n, bytes) = live_summary();
        if n > 0 {
            ctx.fail(format!("C07:leak:{scenario}"), format!("{n} allocation(s), {bytes} bytes still live after every handle of the case was dropped; sample={}{}", ctx.out.sample, live_backtraces()));
            live_clear();
        }
        if ctx.out.hash == 0 {
            ctx.out.hash = fnv(&t.consumed().to_le_bytes()) ^ fnv(scenario.as_bytes()) ^ ALLOCS.load(Ordering::Relaxed);
        }
    }
}

struct Doc {
    lang: &'static Lang,
    text: Text,
    tree: Tree,
}

/// VERIF_TRACE=<file>: append every API operation BEFORE it runs (to see the last one when the process dies)
fn trace(s: &str) {
    if let Ok(f) = std::env::var("VERIF_TRACE") {
        use std::io::Write;
        if let Ok(mut fh) = std::fs::OpenOptions::new().create(true).append(true).open(f) {
            let _ = writeln!(fh, "{s}");
        }
    }
}

fn api_program(ctx: &mut Ctx, t: &mut Tape) {
    let n_ops = 5 + t.below(56);
    let mut parsers: Vec<(Parser, &'static Lang)> = vec![];
    let mut docs: Vec<Doc> = vec![];
    let mut queries: Vec<(Query, &'static Lang)> = vec![];
    let mut log: Vec<String> = vec![];
    let mut did_reparse = false;
    let mut did_query = false;
    let devnull = std::fs::OpenOptions::new().write(true).open("/dev/null").ok();
    let new_parser = |t: &mut Tape| -> (Parser, &'static Lang) {
        let l = lang::zoo(LANGS[t.below(LANGS.len())]);
        let mut p = Parser::new();
        p.set_language(&l.language).unwrap();
        (p, l)
    };
    parsers.push(new_parser(t));
    for _ in 0..n_ops {
        let op = t.weighted(&[22, 10, 6, 5, 5, 4, 4, 4, 9, 10, 8, 6, 4, 3]);
        trace(&format!("op {op}"));
        match op {
            0 => {
                // parse
                let pi = t.below(parsers.len());
                let l = parsers[pi].1;
                let class = doc::gen_class(t, &[25, 25, 20, 15, 3, 12]);
                let mut bytes = doc::gen_doc(l, class, t);
                if bytes.len() > 30_000 {
                    bytes.truncate(30_000);
                }
                let mut text = Text::new(bytes);
                // an old tree of the same language: then the text parsed is that document's current text
                // (the edits applied to the tree were mirrored on it), as the contract demands
                let olds: Vec<usize> = (0..docs.len()).filter(|&i| docs[i].lang.name == l.name).collect();
                let old = if !olds.is_empty() && t.pct(60) { Some(*t.pick(&olds)) } else { None };
                if let Some(o) = old {
                    text = docs[o].text.clone();
                }
                let chunk = match t.below(4) {
                    0 => Chunking::Fixed(1),
                    1 => Chunking::gen(t, text.len()),
                    _ => Chunking::Whole,
                };
                did_reparse |= old.is_some();
                let cancel = if t.pct(20) { Some(t.below(4) as u64) } else { None };
                if text.len() > 3000 {
                    // debug graphs of every parse step of a large document: gigabytes of output, not a property
                    parsers[pi].0.stop_printing_dot_graphs();
                }
                let (tree, st) = drive::parse(&mut parsers[pi].0, &text.bytes, old.map(|i| &docs[i].tree), &chunk, cancel);
                log.push(format!("parse {} {} bytes chunk={} old={:?} cancel={:?} -> {}", l.name, text.len(), chunk.describe(), old, cancel, if tree.is_some() { "tree" } else { "none" }));
                match tree {
                    Some(tree) => docs.push(Doc { lang: l, text, tree }),
                    None => {
                        if st.cancelled {
                            ctx.label("api:cancelled_parse");
                            match t.below(3) {
                                0 => parsers[pi].0.reset(),
                                1 => {
                                    // resume with the same input
                                    let (tree, _) = drive::parse(&mut parsers[pi].0, &text.bytes, old.map(|i| &docs[i].tree), &chunk, None);
                                    if let Some(tree) = tree {
                                        docs.push(Doc { lang: l, text, tree });
                                    }
                                }
                                _ => {} // leave the parser with an outstanding parse
                            }
                        }
                    }
                }
            }
            1 => {
                // edit with arbitrary (ordered) positions
                if docs.is_empty() {
                    continue;
                }
                let di = t.below(docs.len());
                let d = &mut docs[di];
                let len = d.text.len();
                let start = t.below(len + 2);
                let old_end = start + t.below(len.saturating_sub(start) + 3);
                let new_end = start + t.below(50);
                let sp = wild_point(t, &d.text, start);
                let mut op = wild_point(t, &d.text, old_end);
                let mut np = wild_point(t, &d.text, new_end);
                if (op.row, op.column) < (sp.row, sp.column) {
                    op = sp;
                }
                if (np.row, np.column) < (sp.row, sp.column) {
                    np = sp;
                }
                let e = InputEdit { start_byte: start, old_end_byte: old_end, new_end_byte: new_end, start_position: sp, old_end_position: op, new_end_position: np };
                d.tree.edit(&e);
                log.push(format!("edit doc{di} {start}..{old_end} -> ..{new_end}"));
                // keep a text of the right length for later parses: splice zeros
                let s = start.min(len);
                let o = old_end.min(len);
                let ins = vec![b' '; new_end - start];
                let _ = d.text.apply(&crate::model::text::Edit { start: s, old_end: o, inserted: ins });
            }
            2 => {
                if !docs.is_empty() {
                    let di = t.below(docs.len());
                    let c = docs[di].tree.clone();
                    let text = docs[di].text.clone();
                    let lang = docs[di].lang;
                    docs.push(Doc { lang, text, tree: c });
                    log.push(format!("clone doc{di}"));
                }
            }
            3 => {
                if !docs.is_empty() {
                    let di = t.below(docs.len());
                    docs.remove(di);
                    log.push(format!("drop doc{di}"));
                }
            }
            4 => {
                // included ranges
                let pi = t.below(parsers.len());
                let fake = Text::new(vec![b'x'; 1 + t.below(200)]);
                let r: Vec<Range> = crate::checks::c02::gen_ranges(t, &fake);
                let ok = parsers[pi].0.set_included_ranges(&r).is_ok();
                if t.pct(40) {
                    let _ = parsers[pi].0.set_included_ranges(&[]);
                }
                log.push(format!("set_included_ranges ok={ok}"));
            }
            5 => {
                let pi = t.below(parsers.len());
                let l = lang::zoo(LANGS[t.below(LANGS.len())]);
                parsers[pi].0.set_language(&l.language).unwrap();
                parsers[pi].1 = l;
                log.push(format!("set_language {}", l.name));
            }
            6 => {
                let pi = t.below(parsers.len());
                match t.below(4) {
                    0 => parsers[pi].0.reset(),
                    1 => parsers[pi].0.set_logger(Some(Box::new(|_t, _m| {}))),
                    2 => parsers[pi].0.set_logger(None),
                    _ => {
                        if let Some(f) = &devnull {
                            parsers[pi].0.print_dot_graphs(f);
                            if t.pct(50) {
                                parsers[pi].0.stop_printing_dot_graphs();
                            }
                        }
                    }
                }
                log.push("parser misc".into());
            }
            7 => {
                if parsers.len() < 3 {
                    parsers.push(new_parser(t));
                } else {
                    let pi = t.below(parsers.len());
                    parsers.remove(pi);
                    if parsers.is_empty() {
                        parsers.push(new_parser(t));
                    }
                }
            }
            8 => {
                // query compile: random or mutated valid
                let l = if docs.is_empty() { lang::zoo("mini") } else { docs[t.below(docs.len())].lang };
                let src = if t.pct(50) {
                    ctx.label("api:random_query");
                    any_string(t, l)
                } else {
                    let mut s = l.query_src("highlights.scm").unwrap_or_else(|| "(_) @a".into());
                    let k = t.below(4);
                    for _ in 0..k {
                        if s.is_empty() {
                            break;
                        }
                        let mut i = t.below(s.len());
                        while !s.is_char_boundary(i) {
                            i -= 1;
                        }
                        match t.below(3) {
                            0 => {
                                s.remove(i);
                            }
                            1 => s.insert(i, *t.pick(&['(', ')', '@', '#', '"', '.', '!', '*', '[', ']', '\u{e9}'])),
                            _ => s.truncate(i),
                        }
                    }
                    s
                };
                trace(&format!("Query::new({}, {:?})", l.name, src));
                match Query::new(&l.language, &src) {
                    Ok(q) => {
                        let _ = q.pattern_count();
                        for i in 0..q.pattern_count() {
                            let _ = q.is_pattern_rooted(i);
                            let _ = q.is_pattern_non_local(i);
                            let _ = q.start_byte_for_pattern(i);
                            let _ = q.end_byte_for_pattern(i);
                        }
                        let _ = q.is_pattern_guaranteed_at_step(t.below(src.len() + 1));
                        queries.push((q, l));
                        if queries.len() > 4 {
                            queries.remove(0);
                        }
                    }
                    Err(e) => {
                        if e.offset > src.len() {
                            ctx.fail("C07:query_error_offset_outside_source", format!("{e:?} for {:?}", src));
                        }
                    }
                }
                log.push(format!("Query::new {} bytes", src.len()));
            }
            9 => {
                // query execution
                if docs.is_empty() {
                    continue;
                }
                let di = t.below(docs.len());
                let d = &docs[di];
                let qs: Vec<usize> = (0..queries.len()).filter(|&i| queries[i].1.name == d.lang.name).collect();
                let tmpq;
                let q: &Query = if !qs.is_empty() {
                    &queries[*t.pick(&qs)].0
                } else {
                    tmpq = Query::new(&d.lang.language, "(_) @a _ @b").unwrap();
                    &tmpq
                };
                let mut c = QueryCursor::new();
                if t.pct(50) {
                    c.set_match_limit(1 + t.below(64) as u32);
                }
                let len = d.text.len();
                match t.below(6) {
                    0 => {
                        let a = t.below(len + 5);
                        c.set_byte_range(a..a + t.below(len + 5));
                    }
                    1 => {
                        let (ba, bb) = (t.below(len + 1), t.below(len + 1));
                        let a = wild_point(t, &d.text, ba);
                        let b = wild_point(t, &d.text, bb);
                        c.set_point_range(a..b);
                    }
                    2 => {
                        let a = t.below(len + 5);
                        c.set_containing_byte_range(a..a + t.below(len + 5));
                    }
                    3 => {
                        c.set_max_start_depth(Some(t.below(6) as u32));
                    }
                    _ => {}
                }
                did_query = true;
                let root = d.tree.root_node();
                let bytes = d.text.bytes.as_slice();
                let mode = t.below(4);
                let mut count = 0;
                if mode == 0 {
                    let mut ms = c.matches(q, root, bytes);
                    while let Some(m) = ms.next() {
                        count += 1;
                        if t.pct(10) {
                            m.remove();
                        }
                        if count > 3000 {
                            break;
                        }
                    }
                } else if mode == 1 {
                    let mut cs = c.captures(q, root, bytes);
                    while let Some((m, _)) = cs.next() {
                        count += 1;
                        if t.pct(10) {
                            m.remove();
                        }
                        if count > 3000 {
                            break;
                        }
                    }
                } else {
                    // progress callback cancellation
                    let stop_at = 1 + t.below(5);
                    let mut calls = 0;
                    let mut cb = |_s: &tree_sitter::QueryCursorState| -> ControlFlow<()> {
                        calls += 1;
                        if calls >= stop_at {
                            ControlFlow::Break(())
                        } else {
                            ControlFlow::Continue(())
                        }
                    };
                    let opts = QueryCursorOptions::new().progress_callback(&mut cb);
                    let mut ms = c.matches_with_options(q, root, bytes, opts);
                    while let Some(_m) = ms.next() {
                        count += 1;
                        if count > 3000 {
                            break;
                        }
                    }
                }
                let _ = c.did_exceed_match_limit();
                log.push(format!("query on doc{di}: {count} items"));
            }
            10 => {
                // node getters with extreme arguments + cursor random walk
                if docs.is_empty() {
                    continue;
                }
                let di = t.below(docs.len());
                let d = &docs[di];
                let root = d.tree.root_node();
                let mut c = root.walk();
                let total = root.descendant_count();
                let big = [0usize, 1, 255, 256, 65535, u32::MAX as usize - 1, u32::MAX as usize];
                for _ in 0..8 + t.below(30) {
                    let sub = t.below(12);
                    trace(&format!("  walk {sub} at {:?} {}..{}", c.node().kind(), c.node().start_byte(), c.node().end_byte()));
                    match sub {
                        0 => {
                            c.goto_first_child();
                        }
                        1 => {
                            c.goto_last_child();
                        }
                        2 => {
                            c.goto_next_sibling();
                        }
                        3 => {
                            c.goto_previous_sibling();
                        }
                        4 => {
                            c.goto_parent();
                        }
                        5 => {
                            let k = if t.pct(70) { t.below(total + 2) } else { *t.pick(&big) };
                            c.goto_descendant(k);
                        }
                        6 => {
                            let _ = c.goto_first_child_for_byte(*t.pick(&big));
                        }
                        7 => {
                            let _ = c.goto_first_child_for_point(Point { row: *t.pick(&big), column: *t.pick(&big) });
                        }
                        8 => {
                            let n = c.node();
                            c.reset(n);
                        }
                        // (on very deep trees the sibling/parent getters of a zero-width node take minutes under the
                        // sanitizer - quadratic or worse in the depth - which is not what this check is about)
                        _ if d.text.len() > 8000 => {}
                        _ => {
                            let n = c.node();
                            let _ = n.child(*t.pick(&big) as u32);
                            let _ = n.named_child(*t.pick(&big) as u32);
                            let _ = n.field_name_for_child(*t.pick(&big) as u32);
                            let _ = n.field_name_for_named_child(*t.pick(&big) as u32);
                            let _ = n.child_by_field_id(*t.pick(&[0u16, 1, 2, 100, u16::MAX]));
                            let _ = n.child_by_field_name("name");
                            let _ = n.first_child_for_byte(*t.pick(&big));
                            let _ = n.first_named_child_for_byte(*t.pick(&big));
                            let _ = n.descendant_for_byte_range(*t.pick(&big), *t.pick(&big));
                            let _ = n.named_descendant_for_byte_range(*t.pick(&big), *t.pick(&big));
                            let _ = n.descendant_for_point_range(Point { row: *t.pick(&big), column: 0 }, Point { row: *t.pick(&big), column: *t.pick(&big) });
                            let _ = n.child_with_descendant(root);
                            let _ = root.child_with_descendant(n);
                            let _ = n.next_sibling();
                            let _ = n.prev_sibling();
                            let _ = n.next_named_sibling();
                            let _ = n.prev_named_sibling();
                            let _ = n.parent();
                            let _ = n.to_sexp();
                            let _ = n.parse_state();
                            let _ = n.next_parse_state();
                            // documented use: next_state(parse_state, grammar_id)
                            let _ = d.lang.language.next_state(n.parse_state(), n.grammar_id());
                            let _ = n.grammar_name();
                            let _ = c.field_name();
                            let _ = c.depth();
                            let _ = c.descendant_index();
                        }
                    }
                }
                did_query = true;
                let _ = d.tree.root_node_with_offset(*t.pick(&big[..5]), Point { row: t.below(5), column: t.below(5) }).to_sexp();
                if let Some(f) = &devnull {
                    if t.pct(10) {
                        // known finding C07 (recursive dot-graph printer overflows the stack on deep trees): excluded by construction
                        d.tree.print_dot_graph(f);
                    }
                }
                let _ = d.tree.included_ranges();
                log.push(format!("walk doc{di}"));
            }
            11 => {
                // changed ranges between two arbitrary trees of one language
                if docs.len() >= 2 {
                    let a = t.below(docs.len());
                    let b = t.below(docs.len());
                    if docs[a].lang.name == docs[b].lang.name {
                        let n = docs[a].tree.changed_ranges(&docs[b].tree).count();
                        log.push(format!("changed_ranges doc{a} doc{b}: {n}"));
                    }
                }
            }
            12 => {
                // lookahead iterators over all states (and beyond)
                let l = lang::zoo(LANGS[t.below(LANGS.len())]);
                let n = l.language.parse_state_count();
                trace(&format!("language getters on {} ({} states, {} kinds)", l.name, n, l.language.node_kind_count()));
                for s in [0usize, 1, n / 2, n.saturating_sub(1), n, n + 1, 65535] {
                    if let Some(mut it) = l.language.lookahead_iterator(s as u16) {
                        let mut k = 0;
                        while it.next().is_some() {
                            k += 1;
                            if k > 70000 {
                                ctx.fail("C07:lookahead_iterator_endless", format!("state {s} of {}", l.name));
                                break;
                            }
                        }
                        let _ = it.reset_state(t.below(n + 2) as u16);
                        let _ = it.iter_names().count();
                    }
                }
                for id in [0u16, 1, (l.language.node_kind_count() as u16).saturating_sub(1)] {
                    let _ = l.language.node_kind_for_id(id);
                    let _ = l.language.node_kind_is_named(id);
                    let _ = l.language.node_kind_is_visible(id);
                    let _ = l.language.node_kind_is_supertype(id);
                }
                let _ = l.language.field_name_for_id(0);
                let _ = l.language.field_name_for_id(u16::MAX);
                let _ = l.language.id_for_node_kind("nonexistent", true);
                let _ = l.language.field_id_for_name("nonexistent");
                log.push("language getters".into());
            }
            _ => {
                // huge / deep documents
                let pi = t.below(parsers.len());
                let l = parsers[pi].1;
                let bytes = doc::gen_doc(l, DocClass::Huge, t);
                trace(&format!("huge doc {} bytes on {}", bytes.len(), l.name));
                if bytes.len() < 200_000 {
                    parsers[pi].0.stop_printing_dot_graphs();
                    let text = Text::new(bytes);
                    if let Some(tree) = parsers[pi].0.parse(&text.bytes, None) {
                        log.push(format!("huge doc {} bytes", text.len()));
                        docs.push(Doc { lang: l, text, tree });
                    }
                }
            }
        }
        if docs.len() > 6 {
            let k = t.below(docs.len());
            docs.remove(k);
        }
    }
    ctx.out.nontrivial = n_ops >= 5 && did_reparse && did_query;
    ctx.out.hash = fnv(format!("{:?}", log).as_bytes());
    if ctx.want_sample {
        ctx.out.sample = json!({"api_program": log.iter().take(25).collect::<Vec<_>>(), "ops": n_ops});
    } else {
        ctx.out.sample = json!({"last_ops": log.iter().rev().take(8).collect::<Vec<_>>(), "first_text": docs.first().map(|d| show_bytes(&d.text.bytes, 80))});
    }
    // drop order: tape-chosen
    if t.pct(50) {
        drop(parsers);
        drop(queries);
        drop(docs);
    } else {
        drop(docs);
        drop(queries);
        drop(parsers);
    }
}
