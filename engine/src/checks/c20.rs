//! C20: updating a test corpus preserves its inputs and converges.
use crate::core::{Check, Ctx, Tier};
use crate::gen::doc::{self, DocClass};
use crate::lang;
use crate::model::text::show_bytes;
use crate::tape::{fnv, Tape};
use serde_json::json;
use std::collections::BTreeMap;
use std::path::PathBuf;
use tree_sitter::Parser;
use tree_sitter_cli::test::{run_tests_at_path, TestOptions, TestStats, TestSummary};

pub struct C20;

#[derive(Clone, Debug)]
struct MTest {
    name_lines: Vec<String>,
    attrs: Vec<String>,
    header_len: usize,
    closing_len: usize,
    divider_len: usize,
    input: Vec<u8>,
    expected: String,
    lang: &'static str, // "" = default
    skip: bool,
    error_attr: bool,
    fail_fast: bool,
    cst: bool,
    other_platform: bool,
    n_langs: usize,
}

fn ws_norm(s: &str) -> String {
    let mut o = String::new();
    let mut sp = false;
    for c in s.chars() {
        if c.is_whitespace() {
            sp = true;
        } else {
            if sp && !o.is_empty() && c != ')' {
                o.push(' ');
            }
            sp = false;
            o.push(c);
        }
    }
    o
}

fn strip_fields(s: &str) -> String {
    // remove `name: ` before an opening paren
    let re = regex::Regex::new(r"[A-Za-z_][A-Za-z_0-9]*: \(").unwrap();
    re.replace_all(s, "(").to_string()
}

fn is_delim(line: &str, c: char) -> Option<(usize, String)> {
    let l = line.trim_end_matches(['\r', '\n']);
    let n = l.chars().take_while(|x| *x == c).count();
    if n < 3 {
        return None;
    }
    Some((n, l[n..].to_string()))
}

fn render(tests: &[MTest], suffix: &str, crlf: bool) -> Vec<u8> {
    let nl = if crlf { "\r\n" } else { "\n" };
    let mut o: Vec<u8> = vec![];
    for (i, t) in tests.iter().enumerate() {
        if i > 0 {
            o.extend_from_slice(nl.as_bytes());
        }
        o.extend_from_slice(format!("{}{suffix}{nl}", "=".repeat(t.header_len)).as_bytes());
        for n in &t.name_lines {
            o.extend_from_slice(format!("{n}{nl}").as_bytes());
        }
        for a in &t.attrs {
            o.extend_from_slice(format!("{a}{nl}").as_bytes());
        }
        o.extend_from_slice(format!("{}{suffix}{nl}", "=".repeat(t.closing_len)).as_bytes());
        o.extend_from_slice(&t.input);
        o.extend_from_slice(nl.as_bytes());
        o.extend_from_slice(format!("{}{suffix}{nl}", "-".repeat(t.divider_len)).as_bytes());
        o.extend_from_slice(nl.as_bytes());
        o.extend_from_slice(t.expected.replace('\n', nl).as_bytes());
        o.extend_from_slice(nl.as_bytes());
    }
    o
}

/// Reads `file` guided by the model: test after test, the header / name / attribute / input bytes must be exactly the
/// model's. Returns the expected-output regions, or (signature suffix, message).
fn guided_read(file: &[u8], tests: &[&MTest]) -> Result<Vec<String>, (String, String)> {
    let text = String::from_utf8_lossy(file).to_string();
    let lines: Vec<&str> = text.split_inclusive('\n').collect();
    let mut li = 0usize;
    let mut outs = vec![];
    let strip = |l: &str| l.trim_end_matches(['\r', '\n']).to_string();
    for (ti, t) in tests.iter().enumerate() {
        while li < lines.len() && lines[li].trim().is_empty() {
            li += 1;
        }
        let what = format!("test {ti} ({:?})", t.name_lines);
        if li >= lines.len() {
            return Err(("test_dropped".into(), format!("{what}: the file ends before it ({} of {} tests present)", ti, tests.len())));
        }
        if is_delim(lines[li], '=').is_none() {
            return Err(("structure".into(), format!("{what}: expected a === line at line {li}, found {:?}", lines[li])));
        }
        li += 1;
        for n in &t.name_lines {
            if li >= lines.len() || strip(lines[li]) != *n {
                return Err(("name".into(), format!("{what}: name line {:?} expected at line {li}, found {:?}", n, lines.get(li))));
            }
            li += 1;
        }
        for a in &t.attrs {
            if li >= lines.len() || strip(lines[li]) != *a {
                return Err(("attributes".into(), format!("{what}: attribute line {:?} expected at line {li}, found {:?}", a, lines.get(li))));
            }
            li += 1;
        }
        if li >= lines.len() || is_delim(lines[li], '=').is_none() {
            return Err(("attributes".into(), format!("{what}: closing === expected at line {li}, found {:?}", lines.get(li))));
        }
        li += 1;
        // input bytes: exactly the model's, followed by a line break and the divider
        let consumed: usize = lines[..li].iter().map(|l| l.len()).sum();
        let rest = &text.as_bytes()[consumed..];
        if !rest.starts_with(&t.input) {
            let k = rest.iter().zip(t.input.iter()).take_while(|(a, b)| a == b).count();
            return Err(("input".into(), format!("{what}: input differs at its byte {k}: file has {}, model has {}", show_bytes(&rest[k.min(rest.len())..], 60), show_bytes(&t.input[k..], 60))));
        }
        let after = &rest[t.input.len()..];
        let after = after.strip_prefix(b"\r\n").or_else(|| after.strip_prefix(b"\n"));
        let Some(after) = after else {
            return Err(("input".into(), format!("{what}: no line break after the input; file continues with {}", show_bytes(&rest[t.input.len()..], 40))));
        };
        let after_s = String::from_utf8_lossy(after).to_string();
        let dl = after_s.split_inclusive('\n').next().unwrap_or("");
        if is_delim(dl, '-').is_none() {
            return Err(("input".into(), format!("{what}: a --- divider is expected right after the input, found {:?}", dl)));
        }
        // advance li to the line after the divider
        let target = consumed + t.input.len() + (rest.len() - t.input.len() - after.len()) + dl.len();
        let mut acc = 0usize;
        li = 0;
        while li < lines.len() && acc < target {
            acc += lines[li].len();
            li += 1;
        }
        if acc != target {
            return Err(("structure".into(), format!("{what}: internal line accounting ({acc} vs {target})")));
        }
        // output region: until the next test's header (=== line followed by its first name line) or EOF
        let mut out = String::new();
        while li < lines.len() {
            if is_delim(lines[li], '=').is_some() {
                let next_is_header = match tests.get(ti + 1) {
                    Some(nt) => lines.get(li + 1).map(|l| strip(l) == nt.name_lines[0]).unwrap_or(false),
                    None => false,
                };
                if next_is_header {
                    break;
                }
                // some other === line in an output region: an extra test?
                if lines.get(li + 1).map(|l| !l.trim().is_empty()).unwrap_or(false) {
                    return Err(("extra_test".into(), format!("after {what}: unexpected header at line {li}: {:?} {:?}", lines[li], lines.get(li + 1))));
                }
            }
            out.push_str(lines[li]);
            li += 1;
        }
        outs.push(out);
    }
    while li < lines.len() {
        if !lines[li].trim().is_empty() {
            return Err(("extra_test".into(), format!("content after the last test at line {li}: {:?}", lines[li])));
        }
        li += 1;
    }
    Ok(outs)
}

impl Check for C20 {
    fn id(&self) -> &'static str {
        "C20"
    }
    fn rule(&self) -> String {
        "case = a corpus-file MODEL of 1-12 tests (1-2 name lines with punctuation; attribute lines from :skip :error :fail-fast :language(x) :cst :platform(linux|other); opening/closing === and --- of lengths 3-40, optionally all with one common suffix; inputs for the mini/arith zoo languages: valid, erroneous, with leading/trailing blank lines, with `---`/`===`-like lines that are shorter than the real delimiters or lack the suffix; expected outputs: correct (one line, pretty-printed, with or without fields), wrong tree, empty, badly indented, with ; comment lines; 10% CRLF) rendered to test/corpus/t.txt and updated IN PROCESS by tree_sitter_cli::test::run_tests_at_path(update = true) with the zoo languages. Oracles: the updated file is read back by a reader guided by the model - per test, in order: a === line, exactly the model's name lines, exactly its attribute lines, a === line, exactly the input bytes, a line break, a --- line, the output region - so merged, split, dropped, duplicated or reordered tests, changed names/attributes/inputs all fail; if a :fail-fast test stops the run the file must be byte-identical to the original; for every test that ran with an error-free tree (my own parse with the language the test names) the output region equals that tree's S-expression up to whitespace (with or without field names); a following non-update run fails only tests whose tree has errors (or :error tests without errors); a second update leaves the file byte-identical. evaluations = tests in updated files. Non-trivial: >= 2 tests and (a corrected expectation or a delimiter-like input line); distinct by hash(file).".into()
    }
    fn cases(&self, tier: Tier) -> u64 {
        match tier {
            Tier::Quick => 15_000,
            Tier::Thorough => 200_000,
        }
    }
    fn langs(&self) -> Vec<&'static str> {
        vec!["mini", "arith"]
    }
    fn floors(&self) -> Vec<(&'static str, f64)> {
        vec![("file:suffix", 0.15), ("file:attributes", 0.40), ("file:crlf", 0.06), ("file:delimiter_like_input", 0.15), ("update:corrected", 0.12), ("file:multi", 0.6)]
    }
    fn run_case(&self, ctx: &mut Ctx, t: &mut Tape) {
        let mini = lang::zoo("mini");
        let arith = lang::zoo("arith");
        // language table: default language is mini; in 30% its name is not the alphabetically first one
        let quirk = t.pct(30);
        let other_name: &'static str = if quirk { "aaa" } else { "other" };
        ctx.label_if(quirk, "langs:default_not_first");
        let suffix: String = if t.pct(25) { (*t.pick(&["|||", "xyz", " #", "~", "+-+"])).to_string() } else { String::new() };
        ctx.label_if(!suffix.is_empty(), "file:suffix");
        let crlf = t.pct(10);
        ctx.label_if(crlf, "file:crlf");
        let n = match t.weighted(&[20, 50, 30]) {
            0 => 1,
            1 => t.range(2, 5),
            _ => t.range(5, 13),
        };
        ctx.label_if(n > 1, "file:multi");
        let mut tests: Vec<MTest> = vec![];
        let mut any_attr = false;
        let mut delim_like = false;
        let mut used_names: Vec<String> = vec![];
        for i in 0..n {
            // ---- name
            let mut name_lines = vec![];
            let base = *t.pick(&["simple call", "Binary op (nested)", "a: b - c", "edge-case #1", "let & return", "names with \"quotes\"", "unicode é λ", "x", "trailing :skip token in name", "==", "-- not a divider"]);
            let first = format!("{base} {i}");
            name_lines.push(first.clone());
            if t.pct(15) {
                name_lines.push((*t.pick(&["second line", "(continued)", "more: detail"])).to_string());
            }
            used_names.push(first);
            // ---- attributes
            let mut attrs: Vec<String> = vec![];
            let (mut skip, mut error_attr, mut fail_fast, mut cst, mut other_platform) = (false, false, false, false, false);
            let mut lang_name: &'static str = "";
            let mut n_langs = 0;
            if t.pct(50) {
                let k = 1 + t.below(2);
                for _ in 0..k {
                    match t.weighted(&[22, 22, 10, 22, 12, 12]) {
                        0 if !skip => {
                            skip = true;
                            attrs.push(":skip".into());
                        }
                        1 if !error_attr && !skip => {
                            error_attr = true;
                            attrs.push(":error".into());
                        }
                        2 if !fail_fast => {
                            fail_fast = true;
                            attrs.push(":fail-fast".into());
                        }
                        3 if n_langs == 0 => {
                            n_langs = 1;
                            if t.pct(70) {
                                lang_name = other_name;
                                attrs.push(format!(":language({other_name})"));
                            } else {
                                lang_name = "mini";
                                attrs.push(":language(mini)".into());
                            }
                            if t.pct(12) {
                                // the same input checked with a second language
                                n_langs = 2;
                                attrs.push(":language(mini)".into());
                            }
                        }
                        4 if !cst => {
                            cst = true;
                            attrs.push(":cst".into());
                        }
                        5 => {
                            if t.pct(50) {
                                attrs.push(":platform(linux)".into());
                            } else if !other_platform {
                                other_platform = true;
                                attrs.push(":platform(plan9)".into());
                            }
                        }
                        _ => {}
                    }
                }
            }
            // :platform(linux) after :platform(plan9) re-enables the test
            if attrs.iter().any(|a| a == ":platform(linux)") {
                other_platform = false;
            }
            any_attr |= !attrs.is_empty();
            // ---- input
            let l = if lang_name == other_name && !lang_name.is_empty() { arith } else { mini };
            let class = if t.pct(70) { DocClass::Sentence } else { DocClass::Mutated };
            let mut input = doc::gen_doc(l, class, t);
            input.truncate(400);
            let mut input = String::from_utf8_lossy(&input).to_string().replace('\r', " ");
            // no header-like or divider-like lines by accident
            input = input.lines().map(|x| if is_delim(x, '=').is_some() || is_delim(x, '-').is_some() { format!(" {x}") } else { x.to_string() }).collect::<Vec<_>>().join("\n");
            if t.pct(20) {
                input = format!("\n{input}");
            }
            if t.pct(20) {
                input.push('\n');
            }
            let header_len = *t.pick(&[3usize, 3, 4, 10, 20, 40]);
            let closing_len = if t.pct(75) { header_len } else { *t.pick(&[3usize, 5, 12]) };
            let mut divider_len = *t.pick(&[3usize, 3, 4, 9, 20, 40]);
            if t.pct(25) {
                delim_like = true;
                // delimiter-like lines inside the input that must not be taken for delimiters
                let choice = t.below(4);
                let extra = match choice {
                    0 => {
                        // a shorter --- line (with the file's suffix)
                        divider_len = divider_len.max(5);
                        format!("{}{suffix}", "-".repeat(3 + t.below(divider_len - 4)))
                    }
                    1 if !suffix.is_empty() => format!("{}", "-".repeat(3 + t.below(40))), // lacks the suffix
                    2 if !suffix.is_empty() => format!("{}\nnot a name\n{}", "=".repeat(5), "=".repeat(5)), // header-like without the suffix
                    _ => format!("{}{suffix}\n", "=".repeat(3 + t.below(10))), // === followed by a blank line: no header
                };
                let at = input.lines().count();
                let k = t.below(at + 1);
                let mut ls: Vec<String> = input.split('\n').map(|x| x.to_string()).collect();
                ls.insert(k.min(ls.len()), extra);
                input = ls.join("\n");
            }
            let mut input = input.into_bytes();
            if crlf {
                let mut o = vec![];
                for b in input {
                    if b == b'\n' {
                        o.extend_from_slice(b"\r\n");
                    } else {
                        o.push(b);
                    }
                }
                input = o;
                // the reader strips one trailing line break of the input region: keep the model canonical
                if input.ends_with(b"\r") {
                    input.pop();
                }
            }
            // ---- expected output
            let mut p = Parser::new();
            p.set_language(&l.language).unwrap();
            let tree = p.parse(&input, None).unwrap();
            let sexp = tree.root_node().to_sexp();
            let expected = match t.weighted(&[22, 14, 24, 10, 12, 18]) {
                0 => sexp.clone(),
                1 => strip_fields(&sexp),
                2 => "(program (wrong))".to_string(),
                3 => String::new(),
                4 => {
                    // badly indented, one node per line
                    strip_fields(&sexp).replace(" (", "\n      (")
                }
                _ => format!("; a comment\n{}\n  ; another", strip_fields(&sexp)),
            };
            tests.push(MTest { name_lines, attrs, header_len, closing_len, divider_len, input, expected, lang: lang_name, skip, error_attr, fail_fast, cst, other_platform, n_langs });
        }
        ctx.label_if(any_attr, "file:attributes");
        ctx.label_if(delim_like, "file:delimiter_like_input");
        let original = render(&tests, &suffix, crlf);

        // ---- private corpus directory
        let dir: PathBuf = lang::work_dir().join("c20").join(format!("{}", std::process::id()));
        let corpus = dir.join("corpus");
        let _ = std::fs::remove_dir_all(&dir);
        std::fs::create_dir_all(&corpus).unwrap();
        let file = corpus.join("t.txt");
        std::fs::write(&file, &original).unwrap();

        let mut languages: BTreeMap<&str, &tree_sitter::Language> = BTreeMap::new();
        languages.insert("mini", &mini.language);
        languages.insert(other_name, &arith.language);
        let run = |update: bool| -> (Result<(), String>, Vec<String>, bool) {
            let mut parser = Parser::new();
            parser.set_language(&mini.language).unwrap();
            let opts = TestOptions { path: corpus.clone(), debug: false, debug_graph: false, include: None, exclude: None, file_name: None, update, open_log: false, languages: languages.clone(), show_fields: false, overview_only: false };
            let mut summary = TestSummary::new(TestStats::default(), update, false, false);
            let r = std::panic::catch_unwind(std::panic::AssertUnwindSafe(|| run_tests_at_path(&mut parser, &opts, &mut summary)));
            match r {
                Err(p) => {
                    let m = p.downcast_ref::<String>().cloned().or_else(|| p.downcast_ref::<&str>().map(|s| s.to_string())).unwrap_or_default();
                    (Err(format!("panic: {m}")), vec![], false)
                }
                Ok(r) => (r.map_err(|e| format!("{e}")), summary.parse_results.iter().filter(|(_, r)| matches!(&r.info, tree_sitter_cli::test::TestInfo::ParseTest { outcome: tree_sitter_cli::test::TestOutcome::Failed, .. })).map(|(_, r)| r.name.clone()).collect(), summary.has_parse_errors),
            }
        };
        let shown = || show_bytes(&original, 900);
        let (r1, _fail1, _) = run(true);
        if let Err(e) = &r1 {
            if e.starts_with("panic") {
                ctx.fail("C20:update:panic", format!("{e}\nfile:\n{}", shown()));
                let _ = std::fs::remove_dir_all(&dir);
                return;
            }
        }
        let updated = std::fs::read(&file).unwrap_or_default();
        ctx.out.inner += tests.len() as u64;
        ctx.out.hash = fnv(&original);

        // ---- which tests ran, in the documented semantics
        // a :fail-fast test that fails stops the run; nothing is written then
        let mut stopped = false;
        let mut maybe_stopped = false;
        let mut parses: Vec<(bool, String)> = vec![]; // (has error, sexp) with the language the test names (first one)
        for m in &tests {
            let l = if m.lang == other_name && !m.lang.is_empty() { arith } else { mini };
            let mut p = Parser::new();
            p.set_language(&l.language).unwrap();
            let tree = p.parse(&m.input, None).unwrap();
            parses.push((tree.root_node().has_error(), tree.root_node().to_sexp()));
        }
        for (m, (has_err, sexp)) in tests.iter().zip(parses.iter()) {
            if m.skip || m.other_platform {
                continue;
            }
            let passes = if m.error_attr {
                *has_err
            } else if m.cst {
                false
            } else {
                let exp = ws_norm(&m.expected.lines().filter(|l| !l.trim_start().starts_with(';')).collect::<Vec<_>>().join("\n"));
                exp == ws_norm(sexp) || exp == ws_norm(&strip_fields(sexp))
            };
            if m.fail_fast && m.n_langs > 1 {
                // the second language decides as well: cannot be predicted from the first parse
                maybe_stopped = true;
            }
            if m.fail_fast && !passes {
                stopped = true;
                break;
            }
        }
        if stopped {
            ctx.label("update:stopped_by_fail_fast");
            // :cst tests cannot be predicted (passes unknown) - only judge when no cst test precedes
            let cst_before = tests.iter().any(|m| m.cst);
            if !cst_before && updated != original {
                ctx.fail("C20:fail_fast:file_rewritten", format!("a failing :fail-fast test stops the run, yet the file changed\nbefore:\n{}\nafter:\n{}", shown(), show_bytes(&updated, 900)));
            }
            let _ = std::fs::remove_dir_all(&dir);
            return;
        }
        if maybe_stopped && updated == original {
            ctx.label("update:maybe_stopped_unjudged");
            let _ = std::fs::remove_dir_all(&dir);
            return;
        }
        // ---- guided read-back
        let refs: Vec<&MTest> = tests.iter().collect();
        let has = |f: &dyn Fn(&MTest) -> bool| tests.iter().any(|m| f(m));
        let outs = match guided_read(&updated, &refs) {
            Ok(o) => o,
            Err((kind, msg)) => {
                // classification for the known findings: which construct is in the file
                let disc = if !suffix.is_empty() {
                    "file_with_suffix"
                } else if has(&|m| m.n_langs > 1) {
                    "file_with_two_languages"
                } else if has(&|m| m.skip) {
                    "file_with_skip"
                } else if has(&|m| m.other_platform) {
                    "file_with_other_platform"
                } else if has(&|m| m.n_langs > 1) {
                    "file_with_two_languages"
                } else if tests.iter().any(|m| m.cst) && updated == original {
                    "cst_unjudged"
                } else {
                    "plain"
                };
                if disc != "cst_unjudged" {
                    ctx.fail(format!("C20:readback:{kind}:{disc}"), format!("{msg}\nbefore:\n{}\nafter:\n{}", shown(), show_bytes(&updated, 900)));
                }
                let _ = std::fs::remove_dir_all(&dir);
                return;
            }
        };
        // suffix preserved? (guided_read accepts any suffix)
        if !suffix.is_empty() {
            let txt = String::from_utf8_lossy(&updated).to_string();
            let first = txt.lines().find_map(|l| is_delim(l, '=')).map(|d| d.1).unwrap_or_default();
            if first != suffix {
                if ctx.fail("C20:suffix_dropped", format!("delimiters had the suffix {suffix:?}; after the update the first === line has {first:?}\nbefore:\n{}\nafter:\n{}", shown(), show_bytes(&updated, 600))) {
                    let _ = std::fs::remove_dir_all(&dir);
                    return;
                }
            }
        }
        // ---- outputs of error-free tests
        let mut corrected = false;
        let mut lang_drift = false;
        for (i, (m, (has_err, sexp))) in tests.iter().zip(parses.iter()).enumerate() {
            if m.skip || m.other_platform || m.cst || m.error_attr || *has_err || m.n_langs > 1 {
                continue;
            }
            let got = ws_norm(&outs[i]);
            let ok = got == ws_norm(sexp) || got == ws_norm(&strip_fields(sexp));
            let before = ws_norm(&m.expected.lines().filter(|l| !l.trim_start().starts_with(';')).collect::<Vec<_>>().join("\n"));
            if before != got {
                corrected = true;
            }
            if !ok {
                // a test after a :language test is parsed with the alphabetically first language (known quirk)
                let after_lang_test = tests[..i].iter().any(|x| x.n_langs > 0 && !x.skip && !x.other_platform);
                let sig = if after_lang_test && quirk && m.lang.is_empty() { "C20:output:not_the_parse:default_language_lost_after_language_test" } else { "C20:output:not_the_parse" };
                lang_drift = true;
                if ctx.fail(sig, format!("test {i} {:?} parses without error but its expected output after the update is not its tree\noutput region: {:?}\ntree: {sexp}\nbefore:\n{}\nafter:\n{}", m.name_lines, outs[i], shown(), show_bytes(&updated, 900))) {
                    let _ = std::fs::remove_dir_all(&dir);
                    return;
                }
                break;
            }
        }
        ctx.label_if(corrected, "update:corrected");
        // ---- a following plain run fails only tests whose tree has errors
        if !lang_drift {
            let (_r2, fails2, _) = run(false);
            for f in &fails2 {
                let fname = f.replace('\r', "");
                let idx = tests.iter().position(|m| m.name_lines.join("\n") == fname || m.name_lines[0] == fname);
                let excusable = match idx {
                    Some(i) => parses[i].0 || tests[i].error_attr || tests[i].cst || tests[i].n_langs > 1 || (quirk && tests[..i].iter().any(|x| x.n_langs > 0)),
                    None => false,
                };
                if !excusable {
                    let sig = if !suffix.is_empty() { "C20:after_update:error_free_test_fails:file_with_suffix" } else { "C20:after_update:error_free_test_fails" };
                    ctx.fail(sig, format!("test {f:?} fails in a plain run right after the update although its tree is error-free\nafter:\n{}", show_bytes(&updated, 900)));
                    let _ = std::fs::remove_dir_all(&dir);
                    return;
                }
            }
        }
        // ---- a second update is the identity
        let (_r3, _, _) = run(true);
        let updated2 = std::fs::read(&file).unwrap_or_default();
        if let Ok(p) = std::env::var("VERIF_DUMP_SRC") {
            let _ = std::fs::write(format!("{p}.0"), &original);
            let _ = std::fs::write(format!("{p}.1"), &updated);
            let _ = std::fs::write(format!("{p}.2"), &updated2);
        }
        if updated2 != updated {
            let k = updated.iter().zip(updated2.iter()).take_while(|(a, b)| a == b).count();
            let quoted = updated.iter().any(|b| *b == b'\'' || *b == b'"');
            let disc = if !suffix.is_empty() { "file_with_suffix" } else if has(&|m| m.n_langs > 1) { "file_with_two_languages" } else if quoted { "quote_in_expected_output" } else if has(&|m| m.skip || m.other_platform) { "file_with_skip_or_platform" } else if has(&|m| m.n_langs > 1) { "file_with_two_languages" } else if has(&|m| m.cst) { "file_with_cst" } else { "plain" };
            ctx.fail(format!("C20:second_update_differs:{disc}"), format!("first difference at byte {k}\nafter first update:\n{}\nafter second update:\n{}", show_bytes(&updated, 900), show_bytes(&updated2, 900)));
        }
        ctx.out.nontrivial = tests.len() >= 2 && (corrected || delim_like);
        if ctx.out.nontrivial {
            ctx.out.inner_hashes.push(fnv(&original));
        }
        if ctx.want_sample {
            ctx.out.sample = json!({"tests": tests.len(), "suffix": suffix, "crlf": crlf, "file": show_bytes(&original, 300)});
        }
        let _ = std::fs::remove_dir_all(&dir);
    }
}
