//! C17: highlight events are well nested and reproduce the source text exactly.
use crate::core::{Check, Ctx, Tier};
use crate::gen::doc::{self, DocClass};
use crate::lang;
use crate::model::text::{show_bytes, Text};
use crate::tape::{fnv, Tape};
use serde_json::json;
use std::collections::{BTreeMap, BTreeSet};
use std::sync::OnceLock;
use streaming_iterator::StreamingIterator;
use tree_sitter::{Parser, Point, Query, QueryCursor, Range};
use tree_sitter_highlight::{Highlight, HighlightConfiguration, HighlightEvent, Highlighter, HtmlRenderer};

pub struct C17;

#[derive(Clone, Copy, PartialEq, Eq, Debug)]
enum Root {
    Mini,
    MiniNoLocals,
    Arith,
    Tmpl,
    TmplCombined,
}

struct Queries {
    mini_hl: String,
    mini_locals: String,
    mini_inj: String,
    arith_hl: String,
    tmpl_hl: String,
    tmpl_inj: String,
    tmpl_inj_combined: String,
    q_mini_hl: Query,
    q_arith_hl: Query,
    q_tmpl_hl: Query,
    q_mini_locals: Query,
}

fn queries() -> &'static Queries {
    static Q: OnceLock<Queries> = OnceLock::new();
    Q.get_or_init(|| {
        let mini = lang::zoo("mini");
        let arith = lang::zoo("arith");
        let tmpl = lang::zoo("tmpl");
        let g = |l: &lang::Lang, n: &str| l.query_src(n).unwrap_or_else(|| panic!("zoo query {n} of {} missing", l.name));
        let mini_hl = g(mini, "highlights.scm");
        let mini_locals = g(mini, "locals.scm");
        let arith_hl = g(arith, "highlights.scm");
        let tmpl_hl = g(tmpl, "highlights.scm");
        Queries {
            q_mini_hl: Query::new(&mini.language, &mini_hl).expect("mini highlights"),
            q_arith_hl: Query::new(&arith.language, &arith_hl).expect("arith highlights"),
            q_tmpl_hl: Query::new(&tmpl.language, &tmpl_hl).expect("tmpl highlights"),
            q_mini_locals: Query::new(&mini.language, &mini_locals).expect("mini locals"),
            mini_inj: g(mini, "injections.scm"),
            tmpl_inj: g(tmpl, "injections.scm"),
            tmpl_inj_combined: g(tmpl, "injections_combined.scm"),
            mini_hl,
            mini_locals,
            arith_hl,
            tmpl_hl,
        }
    })
}

/// the documented rule: a recognised name matches a capture name if all its dot-separated parts occur in the capture
/// name; the match with the most parts wins (first on ties)
fn map_name(capture: &str, names: &[String]) -> Option<usize> {
    let parts: Vec<&str> = capture.split('.').collect();
    let mut best = None;
    let mut best_len = 0;
    for (i, n) in names.iter().enumerate() {
        let ps: Vec<&str> = n.split('.').collect();
        if ps.iter().all(|p| parts.contains(p)) && ps.len() > best_len {
            best = Some(i);
            best_len = ps.len();
        }
    }
    best
}

fn family_of(name: &str) -> &str {
    name.split('.').next().unwrap_or("")
}

type Spans = Vec<(usize, usize, usize)>; // start, end, highlight index

struct Layer {
    family: &'static str,
    ranges: Vec<(usize, usize)>, // empty = whole document
    /// (start, end, capture name) of every node captured by the family's highlight query in this layer's tree
    captured: Vec<(usize, usize, String)>,
}

fn ts_ranges(text: &Text, rs: &[(usize, usize)]) -> Vec<Range> {
    rs.iter().map(|&(a, b)| Range { start_byte: a, end_byte: b, start_point: text.point_of(a), end_point: text.point_of(b) }).collect()
}

fn intersect(node: (usize, usize), parent: &[(usize, usize)]) -> Vec<(usize, usize)> {
    if parent.is_empty() {
        return if node.1 > node.0 { vec![node] } else { vec![] };
    }
    parent.iter().map(|&(a, b)| (a.max(node.0), b.min(node.1))).filter(|(a, b)| b > a).collect()
}

/// Parses one layer the way the highlighter must (language, included ranges), collects its highlight captures and the
/// content nodes of the injections the zoo queries ask for.
fn build_layers(root: Root, text: &Text) -> Vec<Layer> {
    let q = queries();
    let mut out: Vec<Layer> = vec![];
    let mut todo: Vec<(&'static str, Vec<(usize, usize)>, bool)> = vec![]; // family, ranges, combined-mode of tmpl
    match root {
        Root::Mini | Root::MiniNoLocals => todo.push(("mini", vec![], false)),
        Root::Arith => todo.push(("arith", vec![], false)),
        Root::Tmpl => todo.push(("tmpl", vec![], false)),
        Root::TmplCombined => todo.push(("tmpl", vec![], true)),
    }
    while let Some((family, ranges, combined)) = todo.pop() {
        let l = lang::zoo(family);
        let mut p = Parser::new();
        p.set_language(&l.language).unwrap();
        if !ranges.is_empty() && p.set_included_ranges(&ts_ranges(text, &ranges)).is_err() {
            continue;
        }
        let tree = p.parse(&text.bytes, None).unwrap();
        let hq = match family {
            "mini" => &q.q_mini_hl,
            "arith" => &q.q_arith_hl,
            _ => &q.q_tmpl_hl,
        };
        let mut captured = vec![];
        let mut qc = QueryCursor::new();
        let mut it = qc.captures(hq, tree.root_node(), text.bytes.as_slice());
        while let Some((m, ci)) = it.next() {
            let c = m.captures[*ci];
            captured.push((c.node.start_byte(), c.node.end_byte(), hq.capture_names()[c.index as usize].to_string()));
        }
        // injections, by a plain walk that mirrors the zoo's injection queries
        let mut cur = tree.walk();
        let mut stack: Vec<String> = vec![];
        let mut combined_mini: Vec<(usize, usize)> = vec![];
        let mut visited_children = false;
        loop {
            if !visited_children {
                let n = cur.node();
                let parent_kind = stack.last().map(|s| s.as_str()).unwrap_or("");
                match (family, n.kind(), parent_kind) {
                    ("tmpl", "code", "directive") => {
                        let r = intersect((n.start_byte(), n.end_byte()), &ranges);
                        if combined {
                            combined_mini.extend(r);
                        } else if !r.is_empty() {
                            todo.push(("mini", r, false));
                        }
                    }
                    ("tmpl", "code", "output") => {
                        let r = intersect((n.start_byte(), n.end_byte()), &ranges);
                        if !r.is_empty() {
                            todo.push(("arith", r, false));
                        }
                    }
                    ("mini", "string_content", _) if root != Root::Arith => {
                        let r = intersect((n.start_byte(), n.end_byte()), &ranges);
                        if !r.is_empty() {
                            todo.push(("arith", r, false));
                        }
                    }
                    _ => {}
                }
                if cur.goto_first_child() {
                    stack.push(n.kind().to_string());
                    continue;
                }
            }
            if cur.goto_next_sibling() {
                visited_children = false;
                continue;
            }
            if cur.goto_parent() {
                stack.pop();
                visited_children = true;
                continue;
            }
            break;
        }
        if !combined_mini.is_empty() {
            todo.push(("mini", combined_mini, false));
        }
        out.push(Layer { family, ranges, captured });
    }
    out
}

fn events_of(hl: &mut Highlighter, cfg: &HighlightConfiguration, source: &[u8], inj: &BTreeMap<&'static str, &HighlightConfiguration>) -> Result<Vec<HighlightEvent>, String> {
    // the iterator borrows source/config for 'a: collect inside
    let it = hl.highlight(cfg, source, None, None, |name| inj.get(name).copied()).map_err(|e| format!("highlight() failed: {e:?}"))?;
    let mut out = vec![];
    for e in it {
        out.push(e.map_err(|e| format!("event error: {e:?}"))?);
        if out.len() > 4_000_000 {
            return Err("more than 4M events".into());
        }
    }
    Ok(out)
}

fn show_events(ev: &[HighlightEvent], names: &[String], max: usize) -> String {
    let mut s = String::new();
    for e in ev.iter().take(max) {
        match e {
            HighlightEvent::Source { start, end } => s.push_str(&format!("[{start}..{end}] ")),
            HighlightEvent::HighlightStart(h) => s.push_str(&format!("<{}> ", names.get(h.0).map(|x| x.as_str()).unwrap_or("?"))),
            HighlightEvent::HighlightEnd => s.push_str("</> "),
        }
    }
    if ev.len() > max {
        s.push_str("...");
    }
    s
}

/// spans as a consumer sees them: an End closes the most recent open Start
fn consumer_spans(ev: &[HighlightEvent]) -> Spans {
    let mut spans = vec![];
    let mut stack: Vec<(usize, usize)> = vec![];
    let mut off = 0;
    for e in ev {
        match e {
            HighlightEvent::Source { end, .. } => off = *end,
            HighlightEvent::HighlightStart(h) => stack.push((off, h.0)),
            HighlightEvent::HighlightEnd => {
                if let Some((s, h)) = stack.pop() {
                    spans.push((s, off, h));
                }
            }
        }
    }
    spans
}

fn exact_span(spans: &Spans, r: (usize, usize)) -> Option<usize> {
    spans.iter().filter(|s| (s.0, s.1) == r).map(|s| s.2).last()
}

fn decode_html(html: &[u8]) -> Result<(String, Vec<Vec<usize>>, bool), String> {
    // returns text, per-character stack of highlight indices, every line balanced
    let s = std::str::from_utf8(html).map_err(|e| format!("html is not UTF-8: {e}"))?;
    let mut text = String::new();
    let mut stacks = vec![];
    let mut stack: Vec<usize> = vec![];
    let mut balanced = true;
    let mut i = 0;
    let b = s.as_bytes();
    while i < b.len() {
        if b[i] == b'<' {
            let close = s[i..].find('>').ok_or("unterminated tag")? + i;
            let tag = &s[i..=close];
            if tag == "</span>" {
                if stack.pop().is_none() {
                    return Err(format!("</span> without open span at html byte {i}"));
                }
            } else if let Some(rest) = tag.strip_prefix("<span h=") {
                let n: usize = rest.trim_end_matches('>').parse().map_err(|_| format!("bad tag {tag}"))?;
                stack.push(n);
            } else {
                return Err(format!("unexpected tag {tag}"));
            }
            i = close + 1;
        } else if b[i] == b'&' {
            let semi = s[i..].find(';').ok_or("unterminated entity")? + i;
            let c = match &s[i..=semi] {
                "&gt;" => '>',
                "&lt;" => '<',
                "&amp;" => '&',
                "&#39;" => '\'',
                "&quot;" => '"',
                x => return Err(format!("unknown entity {x}")),
            };
            text.push(c);
            stacks.push(stack.clone());
            i = semi + 1;
        } else {
            let c = s[i..].chars().next().unwrap();
            if c == '\n' && !stack.is_empty() {
                balanced = false;
            }
            text.push(c);
            stacks.push(stack.clone());
            i += c.len_utf8();
        }
    }
    if !stack.is_empty() {
        return Err("unclosed span at the end of the html".into());
    }
    Ok((text, stacks, balanced))
}

fn normalise(s: &str) -> String {
    let mut o: String = s.chars().filter(|c| *c != '\r').collect();
    if !o.ends_with('\n') {
        o.push('\n');
    }
    o
}

impl Check for C17 {
    fn id(&self) -> &'static str {
        "C17"
    }
    fn rule(&self) -> String {
        "case = root configuration (mini with locals + strings injected as arith; mini without locals; arith; tmpl injecting mini per directive and arith per output; tmpl with the mini directives as ONE combined injection, each with nested mini-string -> arith) x recognised-name list (all capture names / family prefixes only / random subset / empty) x 1-3 documents highlighted by one reused Highlighter; documents from the sentence/mutation/random-byte/pathological generators, 15% converted to CRLF or lone CR, 15% with invalid UTF-8 spliced in. Oracles per document: (events) Source spans start at 0, are non-empty, contiguous and end at len; Start/End balanced, never negative, zero at the end; highlight index < number of names; (extents) each consumer-view span [offset at Start, offset at its End) with a highlight of family F equals the range of a node captured by F's highlight query in one of F's layers, which I parse myself with the content ranges computed from my own parse of the parent (same language, same included ranges); (containment) spans of an injected family begin and end inside that family's content ranges; (html) output parses as spans/entities/text, every line is tag-balanced, stripped+decoded text = from_utf8_lossy(source) (or its per-Source-chunk form when an event boundary splits an invalid sequence) without CR and with a final newline, and on valid UTF-8 the span stack of every character equals the event stack of its byte; (reuse) events equal a fresh Highlighter's; (locals, mini root) own scope resolver over the locals captures as documented - an earlier definition with the same text in an enclosing scope, innermost scope then latest - : a resolved reference has the exact-span highlight of its definition, an unresolved one the highlight it has when the configuration has no locals query. evaluations = documents highlighted. Non-trivial: >= 3 highlight spans and (an injected layer with spans or a resolved local reference); distinct by hash(config, names, source).".into()
    }
    fn cases(&self, tier: Tier) -> u64 {
        match tier {
            Tier::Quick => 30_000,
            Tier::Thorough => 400_000,
        }
    }
    fn langs(&self) -> Vec<&'static str> {
        vec!["mini", "arith", "tmpl"]
    }
    fn floors(&self) -> Vec<(&'static str, f64)> {
        vec![("layer:injected", 0.30), ("src:invalid_utf8", 0.08), ("src:cr", 0.08), ("locals:resolved", 0.10), ("names:empty", 0.03), ("reuse", 0.25)]
    }
    fn run_case(&self, ctx: &mut Ctx, t: &mut Tape) {
        let q = queries();
        let root = [Root::Mini, Root::MiniNoLocals, Root::Arith, Root::Tmpl, Root::TmplCombined][t.weighted(&[34, 6, 5, 30, 25])];
        // recognised names
        let mut all: Vec<String> = vec![];
        for qq in [&q.q_mini_hl, &q.q_arith_hl, &q.q_tmpl_hl] {
            for n in qq.capture_names() {
                if !all.contains(&n.to_string()) {
                    all.push(n.to_string());
                }
            }
        }
        let names: Vec<String> = match t.weighted(&[50, 18, 25, 7]) {
            0 => all.clone(),
            1 => vec!["mini".into(), "arith".into(), "tmpl".into(), "mini.variable".into(), "mini.function".into(), "mini.variable.parameter".into()],
            2 => {
                let v: Vec<String> = all.iter().filter(|_| t.pct(65)).cloned().collect();
                v
            }
            _ => {
                ctx.label("names:empty");
                vec![]
            }
        };
        let mk = |lname: &str, hl: &str, inj: &str, loc: &str| -> HighlightConfiguration {
            let mut c = HighlightConfiguration::new(lang::zoo(lname).language.clone(), lname, hl, inj, loc).unwrap_or_else(|e| panic!("zoo highlight configuration {lname}: {e:?}"));
            c.configure(&names);
            c
        };
        let mini_cfg = mk("mini", &q.mini_hl, &q.mini_inj, &q.mini_locals);
        let mini_nolocals = mk("mini", &q.mini_hl, &q.mini_inj, "");
        let arith_cfg = mk("arith", &q.arith_hl, "", "");
        let tmpl_cfg = mk("tmpl", &q.tmpl_hl, &q.tmpl_inj, "");
        let tmpl_comb = mk("tmpl", &q.tmpl_hl, &q.tmpl_inj_combined, "");
        let mut inj: BTreeMap<&'static str, &HighlightConfiguration> = BTreeMap::new();
        inj.insert("mini", &mini_cfg);
        inj.insert("arith", &arith_cfg);
        let mut inj_nolocals = inj.clone();
        inj_nolocals.insert("mini", &mini_nolocals);
        let (root_cfg, root_family): (&HighlightConfiguration, &str) = match root {
            Root::Mini => (&mini_cfg, "mini"),
            Root::MiniNoLocals => (&mini_nolocals, "mini"),
            Root::Arith => (&arith_cfg, "arith"),
            Root::Tmpl => (&tmpl_cfg, "tmpl"),
            Root::TmplCombined => (&tmpl_comb, "tmpl"),
        };
        ctx.label(format!("root:{root:?}"));
        let ndocs = 1 + t.weighted(&[50, 30, 20]);
        ctx.label_if(ndocs > 1, "reuse");
        let mut hl = Highlighter::new();
        let mut nontrivial = false;
        let mut case_hash = fnv(format!("{root:?}|{names:?}").as_bytes());
        for di in 0..ndocs {
            // ---- document
            let mut src: Vec<u8> = match root {
                Root::Tmpl | Root::TmplCombined => {
                    if t.pct(25) {
                        ctx.label("src:split_directives");
                        split_directive_doc(t)
                    } else if t.pct(75) {
                        crate::gen::custom::tmpl_doc(t)
                    } else {
                        let class = doc::gen_class(t, &[0, 50, 30, 15, 5, 0]);
                        doc::gen_doc(lang::zoo("tmpl"), class, t)
                    }
                }
                _ => {
                    let l = lang::zoo(root_family);
                    let class = doc::gen_class(t, &[55, 25, 8, 8, 2, 2]);
                    ctx.label(format!("class:{}", class.name()));
                    if class == DocClass::Sentence && root_family == "mini" && t.pct(50) {
                        locals_doc(t)
                    } else {
                        doc::gen_doc(l, class, t)
                    }
                }
            };
            if src.len() > 6000 {
                src.truncate(6000);
            }
            if t.pct(15) {
                ctx.label("src:cr");
                let mode = t.below(3);
                let mut o = vec![];
                for &b in &src {
                    if b == b'\n' {
                        match mode {
                            0 => o.extend_from_slice(b"\r\n"),
                            1 => o.push(b'\r'),
                            _ => {
                                if t.pct(50) {
                                    o.extend_from_slice(b"\r\n")
                                } else {
                                    o.push(b'\n')
                                }
                            }
                        }
                    } else {
                        o.push(b);
                    }
                }
                if t.pct(30) {
                    o.push(b'\r');
                }
                src = o;
            }
            if t.pct(15) {
                ctx.label("src:invalid_utf8");
                let k = 1 + t.below(3);
                for _ in 0..k {
                    let junk: &[u8] = *t.pick(&[&b"\xff"[..], b"\xc3", b"\xe2\x82", b"\xf0\x9f\x98", b"\x80", b"\xed\xa0\x80", b"\xc0\xaf"]);
                    let at = match t.weighted(&[50, 30, 20]) {
                        0 => t.below(src.len() + 1),
                        1 => src.len(),
                        _ => {
                            let bs = crate::gen::edits::boundaries(&src);
                            *t.pick(&bs)
                        }
                    };
                    let at = at.min(src.len());
                    src.splice(at..at, junk.iter().copied());
                }
            }
            if let Ok(p) = std::env::var("VERIF_DUMP_SRC") {
                let _ = std::fs::write(p, &src);
            }
            let text = Text::new(src.clone());
            let valid_utf8 = std::str::from_utf8(&src).is_ok();
            ctx.out.inner += 1;
            case_hash = fnv(format!("{case_hash}|{}", fnv(&src)).as_bytes());
            let shown = || show_bytes(&src, 400);

            // ---- run
            let ev = match events_of(&mut hl, root_cfg, &src, &inj) {
                Ok(e) => e,
                Err(e) => {
                    ctx.fail("C17:events:error", format!("{e}\nroot {root:?}, source {}", shown()));
                    return;
                }
            };
            // ---- (events) cover + nesting + index
            let mut off = 0usize;
            let mut depth = 0i64;
            for (i, e) in ev.iter().enumerate() {
                match e {
                    HighlightEvent::Source { start, end } => {
                        if *start != off || end <= start || *end > src.len() {
                            ctx.fail("C17:events:source_not_contiguous", format!("event {i}: Source {start}..{end} after offset {off} (len {})\nroot {root:?}, source {}\nevents: {}", src.len(), shown(), show_events(&ev, &names, 60)));
                            return;
                        }
                        off = *end;
                    }
                    HighlightEvent::HighlightStart(Highlight(h)) => {
                        depth += 1;
                        if *h >= names.len() {
                            ctx.fail("C17:events:highlight_index_out_of_range", format!("event {i}: highlight {h} with {} names\nsource {}", names.len(), shown()));
                            return;
                        }
                    }
                    HighlightEvent::HighlightEnd => {
                        depth -= 1;
                        if depth < 0 {
                            ctx.fail("C17:events:end_without_start", format!("event {i}\nroot {root:?}, source {}\nevents: {}", shown(), show_events(&ev, &names, 60)));
                            return;
                        }
                    }
                }
            }
            if off != src.len() {
                ctx.fail("C17:events:source_not_covered", format!("Source events end at {off}, the text has {} bytes\nroot {root:?}, source {}\nevents: {}", src.len(), shown(), show_events(&ev, &names, 60)));
                return;
            }
            if depth != 0 {
                ctx.fail("C17:events:unclosed_at_end", format!("{depth} highlights open at the end\nroot {root:?}, source {}\nevents: {}", shown(), show_events(&ev, &names, 60)));
                return;
            }
            let spans = consumer_spans(&ev);

            // ---- (extents) + (containment)
            let layers = build_layers(root, &text);
            let injected_with_spans = spans.iter().any(|s| family_of(&names[s.2]) != root_family);
            ctx.label_if(layers.len() > 1, "layer:injected");
            ctx.label_if(layers.iter().any(|l| l.ranges.len() > 1), "layer:multi_range");
            let mut by_family: BTreeMap<&str, (BTreeSet<(usize, usize, usize)>, BTreeSet<(usize, usize)>, Vec<(usize, usize)>)> = BTreeMap::new();
            for l in &layers {
                let e = by_family.entry(l.family).or_default();
                for (s, en, name) in &l.captured {
                    if let Some(i) = map_name(name, &names) {
                        e.0.insert((*s, *en, i));
                    }
                    if name == "mini.variable" || name == "arith.variable" {
                        e.1.insert((*s, *en));
                    }
                }
                e.2.extend(l.ranges.iter().copied());
            }
            // (starts) every HighlightStart of an injected family happens at the start of a node captured with that
            // name in one of the family's layers, inside the family's content ranges. Unlike the consumer-view extents
            // this does not depend on which End closes which Start.
            {
                let mut off = 0usize;
                for e in &ev {
                    match e {
                        HighlightEvent::Source { end, .. } => off = *end,
                        HighlightEvent::HighlightStart(h) => {
                            let fam = family_of(&names[h.0]);
                            if let Some((exact, idents, ranges)) = by_family.get(fam) {
                                if fam != root_family && !ranges.iter().any(|(a, b)| *a <= off && off <= *b) {
                                    ctx.fail("C17:containment:start_outside_injection_content", format!("a {} highlight starts at byte {off}, outside the {fam} content ranges {:?}\nroot {root:?}, source {}\nevents: {}", names[h.0], ranges, shown(), show_events(&ev, &names, 80)));
                                    return;
                                }
                                let known_start = exact.iter().any(|x| x.0 == off && x.2 == h.0) || (fam == "mini" && idents.iter().any(|x| x.0 == off));
                                if !known_start {
                                    ctx.fail("C17:extent:start_is_no_captured_node", format!("a {} highlight starts at byte {off} where no node captured with that name starts in a {fam} layer\nroot {root:?}, source {}\nevents: {}", names[h.0], shown(), show_events(&ev, &names, 80)));
                                    return;
                                }
                            }
                        }
                        HighlightEvent::HighlightEnd => {}
                    }
                }
            }
            // a token of a combined injection that runs from one content range into the next (known finding)
            let gap_node = layers.iter().any(|l| l.ranges.len() > 1 && l.captured.iter().any(|c| l.ranges.windows(2).any(|w| c.0 < w[0].1 && c.1 > w[1].0)));
            ctx.label_if(gap_node, "combined:node_spans_gap");
            for &(s, e, h) in &spans {
                if e == s {
                    continue;
                }
                let fam = family_of(&names[h]);
                let Some((exact, idents, ranges)) = by_family.get(fam) else {
                    ctx.fail("C17:extent:family_without_layer", format!("span {s}..{e} highlighted {} but my reconstruction has no {fam} layer\nroot {root:?}, source {}\nevents: {}", names[h], shown(), show_events(&ev, &names, 80)));
                    return;
                };
                if fam != root_family {
                    let inside = |p: usize| ranges.iter().any(|(a, b)| *a <= p && p <= *b);
                    if !inside(s) || !inside(e) {
                        let sig = if gap_node { "C17:containment:span_outside_injection_content:node_spans_gap_between_combined_ranges" } else { "C17:containment:span_outside_injection_content" };
                        if !ctx.fail(sig, format!("span {s}..{e} highlighted {} leaves the {fam} content ranges {:?}\nroot {root:?}, source {}\nevents: {}", names[h], ranges, shown(), show_events(&ev, &names, 80))) {
                            break;
                        }
                        return;
                    }
                }
                let ok = exact.contains(&(s, e, h)) || (idents.contains(&(s, e)) && fam == "mini");
                if !ok {
                    let same_offset_swap = spans.iter().any(|o| o.0 == s && (o.1 != e || o.2 != h) && family_of(&names[o.2]) != fam);
                    let sig = if gap_node { "C17:extent:span_is_no_captured_node:node_spans_gap_between_combined_ranges" } else if same_offset_swap { "C17:extent:span_is_no_captured_node:layers_start_at_same_offset" } else if layers.len() > 1 { "C17:extent:span_is_no_captured_node:with_injections" } else { "C17:extent:span_is_no_captured_node" };
                    if ctx.fail(sig, format!("consumer-view span {s}..{e} highlighted {} is not the range of a node captured with that name in a {fam} layer\nroot {root:?}, source {}\nevents: {}", names[h], shown(), show_events(&ev, &names, 80))) {
                        return;
                    }
                    break;
                }
            }

            // ---- (html)
            let mut r = HtmlRenderer::new();
            if let Err(e) = r.render(ev.iter().cloned().map(Ok), &src, &|h: Highlight, out: &mut Vec<u8>| out.extend(format!("h={}", h.0).bytes())) {
                ctx.fail("C17:html:render_error", format!("{e:?}\nsource {}", shown()));
                return;
            }
            let html = r.html.clone();
            match decode_html(&html) {
                Err(e) => {
                    ctx.fail("C17:html:malformed", format!("{e}\nsource {}\nhtml {}", shown(), show_bytes(&html, 600)));
                    return;
                }
                Ok((plain, stacks, balanced)) => {
                    if !balanced {
                        ctx.fail("C17:html:line_not_balanced", format!("a newline is emitted inside an open span\nsource {}\nhtml {}", shown(), show_bytes(&html, 600)));
                        return;
                    }
                    let whole = normalise(&String::from_utf8_lossy(&src));
                    if plain != whole {
                        let mut chunked = String::new();
                        for e in &ev {
                            if let HighlightEvent::Source { start, end } = e {
                                chunked.push_str(&String::from_utf8_lossy(&src[*start..*end]));
                            }
                        }
                        let chunked = normalise(&chunked);
                        if plain != chunked {
                            let at_chunk_end = ev.iter().any(|e| matches!(e, HighlightEvent::Source{start, end} if std::str::from_utf8(&src[*start..*end]).is_err()));
                            // tags (a re-opened span, a zero-width highlight) after the final newline of the text
                            let open_over_final_newline = src.iter().rev().find(|b| **b != b'\r') == Some(&b'\n') && html.ends_with(b">\n");
                            let sig = if open_over_final_newline && (plain == format!("{whole}\n") || plain == format!("{chunked}\n")) {
                                "C17:html:text_differs:extra_newline_when_tags_follow_final_newline"
                            } else if !valid_utf8 && at_chunk_end { "C17:html:text_differs:invalid_utf8" } else { "C17:html:text_differs" };
                            if ctx.fail(sig, {
                                let k = plain.chars().zip(whole.chars()).take_while(|(a, b)| a == b).count();
                                let from = k.saturating_sub(40);
                                format!("first difference at character {k}:\nstripped html ..{:?}\nexpected      ..{:?}\nsource {}", &plain.chars().skip(from).take(120).collect::<String>(), &whole.chars().skip(from).take(120).collect::<String>(), shown())
                            }) {
                                return;
                            }
                        } else {
                            ctx.label("html:chunkwise_lossy");
                        }
                    } else if valid_utf8 {
                        // per-character stacks
                        let mut ev_stack: Vec<usize> = vec![];
                        let mut per_byte: Vec<Vec<usize>> = vec![vec![]; src.len()];
                        for e in &ev {
                            match e {
                                HighlightEvent::HighlightStart(h) => ev_stack.push(h.0),
                                HighlightEvent::HighlightEnd => {
                                    ev_stack.pop();
                                }
                                HighlightEvent::Source { start, end } => {
                                    for b in *start..*end {
                                        per_byte[b] = ev_stack.clone();
                                    }
                                }
                            }
                        }
                        let s = std::str::from_utf8(&src).unwrap();
                        let mut k = 0usize;
                        for (bi, c) in s.char_indices() {
                            if c == '\r' {
                                continue;
                            }
                            if c != '\n' && k < stacks.len() && stacks[k] != per_byte[bi] {
                                ctx.fail("C17:html:span_stack_differs", format!("character {c:?} at byte {bi}: html stack {:?}, event stack {:?}\nsource {}\nhtml {}", stacks[k], per_byte[bi], shown(), show_bytes(&html, 600)));
                                return;
                            }
                            k += 1;
                        }
                    }
                }
            }

            // ---- (reuse)
            if di > 0 {
                let mut fresh = Highlighter::new();
                match events_of(&mut fresh, root_cfg, &src, &inj) {
                    Ok(e2) if show_events(&e2, &names, usize::MAX) == show_events(&ev, &names, usize::MAX) => {}
                    Ok(e2) => {
                        ctx.fail("C17:reuse:events_differ", format!("document {di} of a reused Highlighter vs a fresh one\nreused: {}\nfresh:  {}\nsource {}", show_events(&ev, &names, 60), show_events(&e2, &names, 60), shown()));
                        return;
                    }
                    Err(e) => {
                        ctx.fail("C17:reuse:fresh_error", e);
                        return;
                    }
                }
            }

            // ---- (locals)
            let mut resolved_any = false;
            if root == Root::Mini && !names.is_empty() {
                let mut hl2 = Highlighter::new();
                let ev_nl = match events_of(&mut hl2, &mini_nolocals, &src, &inj_nolocals) {
                    Ok(e) => e,
                    Err(e) => {
                        ctx.fail("C17:events:error", e);
                        return;
                    }
                };
                let spans_nl = consumer_spans(&ev_nl);
                // locals captures from my own run of the locals query
                let l = lang::zoo("mini");
                let mut p = Parser::new();
                p.set_language(&l.language).unwrap();
                let tree = p.parse(&src, None).unwrap();
                let lq = &q.q_mini_locals;
                let mut scopes: Vec<(usize, usize)> = vec![];
                let mut defs: Vec<(usize, usize)> = vec![];
                let mut refs: Vec<(usize, usize)> = vec![];
                let mut qc = QueryCursor::new();
                let mut it = qc.captures(lq, tree.root_node(), src.as_slice());
                while let Some((m, ci)) = it.next() {
                    let c = m.captures[*ci];
                    let r = (c.node.start_byte(), c.node.end_byte());
                    match lq.capture_names()[c.index as usize] {
                        "local.scope" => scopes.push(r),
                        "local.definition" => defs.push(r),
                        "local.reference" => refs.push(r),
                        _ => {}
                    }
                }
                defs.sort();
                defs.dedup();
                let scope_of = |r: (usize, usize)| -> Vec<(usize, usize)> {
                    // enclosing scopes, innermost first
                    let mut v: Vec<(usize, usize)> = scopes.iter().copied().filter(|s| s.0 <= r.0 && r.1 <= s.1 && s.1 > s.0).collect();
                    v.sort_by_key(|s| (s.1 - s.0, s.0));
                    v.dedup();
                    v
                };
                for r in refs {
                    if defs.contains(&r) || r.1 == r.0 {
                        continue;
                    }
                    let Ok(name) = std::str::from_utf8(&src[r.0..r.1]) else { continue };
                    let enclosing = scope_of(r);
                    // candidate definitions: earlier, same text; its own innermost scope must enclose the reference
                    let mut best: Option<(usize, (usize, usize))> = None; // (scope rank: 0 innermost, def)
                    let mut boundary_only = false;
                    for d in &defs {
                        if d.0 >= r.0 || std::str::from_utf8(&src[d.0..d.1]).ok() != Some(name) {
                            continue;
                        }
                        let dscope = scope_of(*d).first().copied();
                        let rank = match dscope {
                            None => Some(enclosing.len()),
                            Some(ds) => enclosing.iter().position(|s| *s == ds),
                        };
                        match rank {
                            Some(k) => {
                                if best.map(|b| k < b.0 || (k == b.0 && d.0 > b.1 .0)).unwrap_or(true) {
                                    best = Some((k, *d));
                                }
                            }
                            None => {
                                if dscope.map(|ds| ds.1 == r.0).unwrap_or(false) {
                                    boundary_only = true;
                                }
                            }
                        }
                    }
                    let got = exact_span(&spans, r);
                    match best {
                        Some((_, d)) => {
                            resolved_any = true;
                            ctx.count("#locals_resolved");
                            let hd = exact_span(&spans, d);
                            if hd.is_some() && got != hd {
                                let sig = if boundary_only { "C17:locals:reference_not_like_definition:reference_starts_at_scope_end" } else { "C17:locals:reference_not_like_definition" };
                                if ctx.fail(sig, format!("reference {name:?} at {}..{} is highlighted {:?}; its definition at {}..{} is highlighted {:?}\nsource {}\nevents: {}", r.0, r.1, got.map(|i| &names[i]), d.0, d.1, hd.map(|i| &names[i]), shown(), show_events(&ev, &names, 100))) {
                                    return;
                                }
                            }
                        }
                        None => {
                            ctx.count("#locals_unresolved");
                            let want = exact_span(&spans_nl, r);
                            if got != want {
                                let sig = if boundary_only { "C17:locals:unresolved_reference_changed:reference_starts_at_scope_end" } else { "C17:locals:unresolved_reference_changed" };
                                if ctx.fail(sig, format!("{name:?} at {}..{} has no earlier definition in an enclosing scope, yet it is highlighted {:?} instead of {:?} (its highlight without a locals query)\nsource {}\nevents: {}", r.0, r.1, got.map(|i| &names[i]), want.map(|i| &names[i]), shown(), show_events(&ev, &names, 100))) {
                                    return;
                                }
                            }
                        }
                    }
                }
                ctx.label_if(resolved_any, "locals:resolved");
            }
            if spans.len() >= 3 && (injected_with_spans || resolved_any) {
                nontrivial = true;
                ctx.out.inner_hashes.push(fnv(format!("{root:?}|{names:?}|{}", fnv(&src)).as_bytes()));
            }
            if ctx.want_sample && di == 0 {
                ctx.out.sample = json!({"root": format!("{root:?}"), "names": names.len(), "source": show_bytes(&src, 160), "events": ev.len(), "spans": spans.len(), "layers": layers.len()});
            }
        }
        ctx.out.nontrivial = nontrivial;
        ctx.out.hash = case_hash;
    }
}

/// mini documents rich in scopes, parameters, let definitions, shadowing and references (incl. identifiers glued to a
/// closing brace)
fn locals_doc(t: &mut Tape) -> Vec<u8> {
    const NAMES: &[&str] = &["a", "b", "x", "foo", "é", "self"];
    fn stmt(t: &mut Tape, depth: u32, out: &mut String) {
        let sp = |t: &mut Tape| *t.pick(&["", " ", " ", "\n", "  "]);
        match t.weighted(&[25, 25, 15, 10, 10, 15]) {
            0 => {
                let n = *t.pick(NAMES);
                out.push_str("let ");
                out.push_str(n);
                if t.pct(60) {
                    out.push_str(sp(t));
                    out.push('=');
                    out.push_str(sp(t));
                    expr(t, out);
                }
                out.push(';');
            }
            1 => {
                expr(t, out);
                out.push(';');
            }
            2 if depth < 4 => {
                out.push('{');
                out.push_str(sp(t));
                for _ in 0..t.below(4) {
                    stmt(t, depth + 1, out);
                    out.push_str(sp(t));
                }
                out.push('}');
            }
            3 if depth < 3 => {
                out.push_str("fn ");
                out.push_str(*t.pick(&["f", "g", "a", "x"]));
                out.push('(');
                let k = t.below(3);
                for i in 0..k {
                    if i > 0 {
                        out.push(',');
                    }
                    out.push_str(*t.pick(NAMES));
                }
                out.push(')');
                out.push_str(sp(t));
                out.push('{');
                for _ in 0..t.below(4) {
                    stmt(t, depth + 1, out);
                    out.push_str(sp(t));
                }
                out.push('}');
            }
            4 if depth < 4 => {
                out.push_str("if (");
                expr(t, out);
                out.push_str(") ");
                stmt(t, depth + 1, out);
            }
            _ => {
                out.push_str(*t.pick(NAMES));
                out.push_str(" = ");
                expr(t, out);
                out.push(';');
            }
        }
        out.push_str(sp(t));
    }
    fn expr(t: &mut Tape, out: &mut String) {
        match t.weighted(&[40, 15, 15, 15, 15]) {
            0 => out.push_str(*t.pick(NAMES)),
            1 => out.push_str(*t.pick(&["1", "42"])),
            2 => {
                out.push_str(*t.pick(NAMES));
                out.push_str(*t.pick(&[" + ", "*", " == "]));
                out.push_str(*t.pick(NAMES));
            }
            3 => {
                out.push_str(*t.pick(&["f", "g", "a", "x"]));
                out.push('(');
                out.push_str(*t.pick(NAMES));
                out.push(')');
            }
            _ => {
                out.push('"');
                out.push_str(*t.pick(&["1 + a;", "x", "f(2)*b;", "é"]));
                out.push('"');
            }
        }
    }
    let mut out = String::new();
    for _ in 0..1 + t.below(8) {
        stmt(t, 0, &mut out);
    }
    out.into_bytes()
}

pub fn debug_hl(root: &str, src: &[u8]) {
    let q = queries();
    let mut names: Vec<String> = vec![];
    for qq in [&q.q_mini_hl, &q.q_arith_hl, &q.q_tmpl_hl] {
        for n in qq.capture_names() {
            names.push(n.to_string());
        }
    }
    let mk = |lname: &str, hl: &str, inj: &str, loc: &str| -> HighlightConfiguration {
        let mut c = HighlightConfiguration::new(lang::zoo(lname).language.clone(), lname, hl, inj, loc).unwrap();
        c.configure(&names);
        c
    };
    let mini_cfg = mk("mini", &q.mini_hl, &q.mini_inj, &q.mini_locals);
    let mini_nolocals = mk("mini", &q.mini_hl, &q.mini_inj, "");
    let arith_cfg = mk("arith", &q.arith_hl, "", "");
    let tmpl_cfg = mk("tmpl", &q.tmpl_hl, &q.tmpl_inj, "");
    let tmpl_comb = mk("tmpl", &q.tmpl_hl, &q.tmpl_inj_combined, "");
    let mut inj: BTreeMap<&'static str, &HighlightConfiguration> = BTreeMap::new();
    inj.insert("mini", &mini_cfg);
    inj.insert("arith", &arith_cfg);
    let cfg = match root {
        "mini" => &mini_cfg,
        "mini-nolocals" => &mini_nolocals,
        "arith" => &arith_cfg,
        "tmpl" => &tmpl_cfg,
        _ => &tmpl_comb,
    };
    let mut hl = Highlighter::new();
    let ev = events_of(&mut hl, cfg, src, &inj).unwrap();
    println!("{}", show_events(&ev, &names, usize::MAX));
    for (s, e, h) in consumer_spans(&ev) {
        println!("  {s}..{e} {} {:?}", names[h], String::from_utf8_lossy(&src[s..e]));
    }
    let mut r = HtmlRenderer::new();
    r.render(ev.iter().cloned().map(Ok), src, &|h: Highlight, out: &mut Vec<u8>| out.extend(format!("h={}", h.0).bytes())).unwrap();
    println!("{}", show_bytes(&r.html, 4000));
}

/// builds the process-lifetime caches (used by C07 before it installs its counting allocator)
pub fn warm() {
    let _ = queries();
}

/// template documents whose mini code is cut into several directives at arbitrary points (inside strings, comments,
/// identifiers), so that in a combined injection tokens - and the content nodes of nested injections - run from one
/// content range into the next
fn split_directive_doc(t: &mut Tape) -> Vec<u8> {
    let mini = lang::zoo("mini");
    let mut out = String::new();
    for _ in 0..1 + t.below(4) {
        if t.pct(50) {
            out.push_str(*t.pick(&["hello ", "<p>", "text\n", "é ", ""]));
        }
        let code: String = if t.pct(60) {
            let k = 1 + t.below(4);
            let mut c = String::new();
            for _ in 0..k {
                c.push_str(*t.pick(&["f(\"1 + 22 * a;\");", "let s = \"x - (1 + y);\" ;", "g(\"a\", \"b + 1;\");", "let a = 1;", "{ let b = a; }", "/* note */ a;", "\"3 * 4;\";"]));
                c.push(' ');
            }
            c
        } else {
            let nb = 1 + t.below(10) as u32;
            let toks = doc::sentence_tokens(mini, t, nb);
            String::from_utf8_lossy(&doc::render(mini, &toks, t)).replace("%>", "% >")
        };
        let chars: Vec<char> = code.chars().collect();
        let cuts = t.below(4);
        let mut pts: Vec<usize> = (0..cuts).map(|_| t.below(chars.len() + 1)).collect();
        pts.sort();
        pts.dedup();
        let mut prev = 0;
        for p in pts.into_iter().chain(std::iter::once(chars.len())) {
            let piece: String = chars[prev..p].iter().collect();
            prev = p;
            if piece.is_empty() {
                continue;
            }
            out.push_str("<%");
            out.push_str(&piece);
            if piece.ends_with('%') {
                out.push(' ');
            }
            out.push_str("%>");
            if t.pct(60) {
                out.push_str(*t.pick(&[" gap ", "\n", "<b>", "1 + 2"]));
            }
        }
    }
    out.into_bytes()
}
