//! C15: generation is deterministic; the state-merging optimisation never changes results.
use crate::checks::c03::{enumerate_strings, join_tokens, random_derivations, terminals_of};
use crate::core::{Check, Ctx, Tier};
use crate::gen::doc;
use crate::gen::grammar;
use crate::lang;
use crate::model::xtree::{xtree_diff, EqOpts, XTree};
use crate::tape::{fnv, Tape};
use serde_json::{json, Value};
use std::process::Command;
use tree_sitter::Parser;
use tree_sitter_generate::OptLevel;

pub struct C15;

const ZOO: &[&str] = &["mini", "arith", "json", "glr", "alias", "tmpl", "indent", "heredoc"];

fn state_count(c: &str) -> Option<u32> {
    c.lines().find(|l| l.starts_with("#define STATE_COUNT")).and_then(|l| l.split_whitespace().nth(2)).and_then(|x| x.parse().ok())
}

impl Check for C15 {
    fn id(&self) -> &'static str {
        "C15"
    }
    fn rule(&self) -> String {
        "case = one grammar: a zoo grammar (20%), a 'lexical context' grammar (40%: an infix operator and a delimited/prefixed literal token that starts with the operator's character - / and /re/, | and |x|, - and -1, < and <a>, % and %a - valid in different contexts, with conditional/call/statement variants; judged on every token string up to a bound joined with and without blanks, and on generated sentences with mutations and re-spacings; 30% of them are 'same core' grammars: 2-4 contexts '1'..'4' each using 2-4 rules with one identical body that are told apart only by the following token, the token-to-rule assignment being a rotation or a tape-chosen permutation per context, so that three or more LR(1) states share a core and conflict pairwise) or a random grammar of the C03 generator (conflict-free CFGs with hidden/inlined rules, aliases, fields; operator tables). (a) the generator is run in 3 SEPARATE processes (vcheck --generate-only; fresh hash seeds, different working directory and environment, one pinned to a single CPU with taskset) through the directory interface the CLI uses, plus once in-process: parser.c and node-types.json must be byte-identical across all of them. (b) the grammar is generated with the state-merging optimisation on and off, both parsers are compiled and loaded, and on every token string up to the largest length with <= 1500 strings, 80 random derivations and their mutations (zoo grammars: 60 generated documents of all six classes) the two parsers must agree on 'has an error' and produce identical explicit trees. evaluations = strings compared + generator processes. Non-trivial: grammar accepted and the two tables differ in STATE_COUNT; distinct by hash(grammar, string).".into()
    }
    fn cases(&self, tier: Tier) -> u64 {
        match tier {
            Tier::Quick => 900,
            Tier::Thorough => 6000,
        }
    }
    fn langs(&self) -> Vec<&'static str> {
        vec![]
    }
    fn floors(&self) -> Vec<(&'static str, f64)> {
        vec![("tables_differ", 0.3), ("grammar:accepted", 0.6)]
    }
    fn jobs(&self) -> Option<usize> {
        Some(8)
    }
    fn watchdog_s(&self) -> u64 {
        300
    }
    fn run_case(&self, ctx: &mut Ctx, t: &mut Tape) {
        let only_lexctx = std::env::var_os("VERIF_C15_ONLY_LEXCTX").is_some();
        let zoo = t.pct(20) && !only_lexctx;
        let mut lexctx_terms: Option<Vec<String>> = None;
        let (gtext, gobj, gname, scanner): (String, Option<grammar::G>, String, Option<String>) = if zoo {
            let n = *t.pick(ZOO);
            let dir = lang::zoo_dir(n);
            let text = std::fs::read_to_string(dir.join("grammar.json")).unwrap();
            ctx.label(format!("zoo:{n}"));
            (text, None, n.to_string(), std::fs::read_to_string(dir.join("scanner.c")).ok())
        } else if t.pct(50) || only_lexctx {
            let name = format!("x{}", t.u16());
            let (text, terms) = lexctx_grammar(t, &name);
            ctx.label("lexctx_grammar");
            if let Ok(p) = std::env::var("VERIF_DUMP_GRAMMAR") {
                let _ = std::fs::write(format!("{p}.{}", fnv(text.as_bytes()) % 1000), &text);
            }
            lexctx_terms = Some(terms);
            (text, None, name, None)
        } else {
            let name = format!("d{}", t.u16());
            let wild = t_wild(t);
            let g = if t.pct(70) { grammar::gen_cfg(t, &name, wild).0 } else { grammar::gen_op_grammar(t, &name).0 };
            ctx.label("random_grammar");
            (g.to_json(), Some(g), name, None)
        };
        // ---------- (a) determinism across processes
        let work = lang::work_dir().join(format!("c15-{}-{:x}", std::process::id(), fnv(gtext.as_bytes())));
        let _ = std::fs::remove_dir_all(&work);
        std::fs::create_dir_all(work.join("src")).unwrap();
        std::fs::write(work.join("src/grammar.json"), &gtext).unwrap();
        let exe = std::env::current_exe().unwrap();
        let inproc = lang::generate_dir(&gtext, &work, "out-inproc", OptLevel::default());
        let mut outputs: Vec<(String, Vec<u8>, Vec<u8>)> = vec![];
        let accepted = inproc.is_ok();
        if let Ok((c, n)) = &inproc {
            outputs.push(("in-process".into(), c.clone(), n.clone()));
        }
        for k in 0..3 {
            let mut cmd = if k == 2 && std::path::Path::new("/usr/bin/taskset").exists() {
                let mut c = Command::new("taskset");
                c.arg("-c").arg("0").arg(&exe);
                c
            } else {
                Command::new(&exe)
            };
            cmd.arg("--generate-only").arg(&work).arg(format!("out-p{k}")).arg("merge");
            cmd.env("VERIF_PERTURB", format!("{k}-{}", "x".repeat(k * 37))).current_dir(if k == 1 { "/" } else { "/tmp" });
            let st = cmd.output();
            ctx.out.inner += 1;
            match st {
                Ok(o) => {
                    let ok = o.status.success();
                    if ok != accepted {
                        ctx.fail("C15:nondeterministic_acceptance", format!("process {k} {} the grammar, the in-process run {}: {}\ngrammar={}", if ok { "accepted" } else { "rejected" }, if accepted { "accepted it" } else { "rejected it" }, String::from_utf8_lossy(&o.stderr), &gtext[..gtext.len().min(1500)]));
                        let _ = std::fs::remove_dir_all(&work);
                        return;
                    }
                    if ok {
                        let c = std::fs::read(work.join(format!("out-p{k}/parser.c"))).unwrap_or_default();
                        let n = std::fs::read(work.join(format!("out-p{k}/node-types.json"))).unwrap_or_default();
                        outputs.push((format!("process {k}"), c, n));
                    }
                }
                Err(e) => {
                    panic!("INFRA: cannot run generator subprocess: {e}");
                }
            }
        }
        for w in outputs.windows(2) {
            if w[0].1 != w[1].1 {
                let a = String::from_utf8_lossy(&w[0].1);
                let b = String::from_utf8_lossy(&w[1].1);
                let line = a.lines().zip(b.lines()).position(|(x, y)| x != y).unwrap_or(0);
                ctx.fail("C15:parser_c_differs_between_runs", format!("{} and {} produced different parser.c (first difference at line {}): {:?} vs {:?}\ngrammar={}", w[0].0, w[1].0, line + 1, a.lines().nth(line), b.lines().nth(line), &gtext[..gtext.len().min(1500)]));
                let _ = std::fs::remove_dir_all(&work);
                return;
            }
            if w[0].2 != w[1].2 {
                ctx.fail("C15:node_types_differ_between_runs", format!("{} and {} produced different node-types.json\ngrammar={}", w[0].0, w[1].0, &gtext[..gtext.len().min(1500)]));
                let _ = std::fs::remove_dir_all(&work);
                return;
            }
        }
        let _ = std::fs::remove_dir_all(&work);
        if !accepted {
            ctx.label("grammar:rejected");
            ctx.out.hash = fnv(gtext.as_bytes());
            return;
        }
        ctx.label("grammar:accepted");
        // ---------- (b) merged vs unmerged tables
        let (_, c_merged) = lang::generate_c(&gtext, OptLevel::default()).unwrap();
        let c_plain = match lang::generate_c(&gtext, OptLevel::empty()) {
            Ok((_, c)) => c,
            Err(e) => {
                ctx.fail("C15:unmerged_generation_rejected", format!("{e}"));
                return;
            }
        };
        let differ = state_count(&c_merged) != state_count(&c_plain);
        ctx.label_if(differ, "tables_differ");
        let salt = format!("c15{}", std::process::id());
        let so1 = lang::compile_so(&c_merged, scanner.as_deref(), "-O0", &salt).unwrap_or_else(|e| panic!("INFRA: {e}"));
        let so2 = lang::compile_so(&c_plain, scanner.as_deref(), "-O0", &salt).unwrap_or_else(|e| panic!("INFRA: {e}"));
        let base = gname.rsplit('/').next().unwrap().to_string();
        let l1 = lang::load_so(&so1, &base).unwrap_or_else(|e| panic!("INFRA: {e}"));
        let l2 = lang::load_so(&so2, &base).unwrap_or_else(|e| panic!("INFRA: {e}"));
        let _ = std::fs::remove_file(&so1);
        let _ = std::fs::remove_file(&so2);
        let mut p1 = Parser::new();
        p1.set_language(&l1.language).unwrap();
        let mut p2 = Parser::new();
        p2.set_language(&l2.language).unwrap();
        let mut docs: Vec<Vec<u8>> = vec![];
        if let Some(g) = &gobj {
            let gjson: Value = serde_json::from_str(&gtext).unwrap();
            let mut terms = terminals_of(g);
            terms.push("z".into());
            terms.push("1".into());
            for s in enumerate_strings(&terms, 1500, 7) {
                docs.push(join_tokens(&s).0.into_bytes());
            }
            for d in random_derivations(&gjson, t, 80, 40) {
                docs.push(join_tokens(&d).0.into_bytes());
                if !d.is_empty() {
                    let mut m = d.clone();
                    let i = t.below(m.len());
                    if t.pct(50) {
                        m.remove(i);
                    } else {
                        m.insert(i, t.pick(&terms).clone());
                    }
                    docs.push(join_tokens(&m).0.into_bytes());
                }
            }
        } else if let Some(terms) = &lexctx_terms {
            // every token string up to a bound, joined with and without blanks (spacing decides how the lexer cuts)
            for s in enumerate_strings(terms, 1200, 7) {
                docs.push(join_tokens(&s).0.into_bytes());
                docs.push(s.concat().into_bytes());
            }
            // sentences of the grammar (long-token samples from the term list), blank-separated, then single-token
            // mutations and re-spacings of them
            let gjson: Value = serde_json::from_str(&gtext).unwrap();
            let longs: Vec<&String> = terms.iter().filter(|x| x.len() >= 2 && !x.chars().all(|c| c.is_ascii_alphabetic())).collect();
            let meta = json!({"samples": {"long": longs.iter().take(2).collect::<Vec<_>>(), "long2": longs.iter().skip(2).take(1).collect::<Vec<_>>(), "number": ["1", "22"]}});
            let sg = crate::gen::sentence::SentenceGen::new(&gjson, &meta);
            let start = sg.start.to_string();
            for _ in 0..200 {
                let b = 2 + t.below(30) as u32;
                let toks: Vec<String> = sg.derive(t, &start, b).into_iter().map(|k| k.text).collect();
                if toks.is_empty() || toks.len() > 60 {
                    continue;
                }
                docs.push(toks.join(" ").into_bytes());
                let mut m = toks.clone();
                let i = t.below(m.len());
                match t.below(3) {
                    0 => {
                        m.remove(i);
                    }
                    1 => m.insert(i, t.pick(terms.as_slice()).clone()),
                    _ => m[i] = t.pick(terms.as_slice()).clone(),
                }
                docs.push(m.join(" ").into_bytes());
                let mut d = String::new();
                for x in &toks {
                    d.push_str(x);
                    if t.pct(50) {
                        d.push(' ');
                    }
                }
                docs.push(d.into_bytes());
            }
        } else {
            let z = lang::zoo(&gname);
            for _ in 0..60 {
                let class = doc::gen_class(t, &[35, 30, 12, 13, 2, 8]);
                let mut b = doc::gen_doc(z, class, t);
                b.truncate(20_000);
                docs.push(b);
            }
        }
        let mut n_acc = 0;
        for d in &docs {
            let t1 = p1.parse(d, None).unwrap();
            let t2 = p2.parse(d, None).unwrap();
            ctx.out.inner += 1;
            let (e1, e2) = (t1.root_node().has_error(), t2.root_node().has_error());
            if differ && d.len() >= 3 {
                ctx.out.inner_hashes.push(fnv(&[gtext.as_bytes(), d.as_slice()].concat()));
            }
            if e1 != e2 {
                ctx.fail("C15:merge_changes_acceptance", format!("with state merging has_error={e1}, without {e2}\ntext={:?}\ngrammar={}", String::from_utf8_lossy(d), &gtext[..gtext.len().min(1500)]));
                return;
            }
            if !e1 {
                n_acc += 1;
                let x1 = XTree::build(&t1);
                let x2 = XTree::build(&t2);
                if let Some((i, _, dd)) = xtree_diff(&x1, &x2, EqOpts::FULL) {
                    ctx.fail("C15:merge_changes_tree", format!("trees differ at {}: {dd}\nmerged  ={}\nunmerged={}\ntext={:?}\ngrammar={}", x1.path_kinds(i, &l1.language), x1.render(&l1.language, 60), x2.render(&l2.language, 60), String::from_utf8_lossy(d), &gtext[..gtext.len().min(1500)]));
                    return;
                }
            }
        }
        ctx.out.nontrivial = differ;
        ctx.out.hash = fnv(gtext.as_bytes());
        if ctx.want_sample {
            ctx.out.sample = json!({"grammar": gname, "zoo": zoo, "states_merged": state_count(&c_merged), "states_unmerged": state_count(&c_plain), "documents": docs.len(), "accepted": n_acc, "processes": 3});
        }
    }
}

/// Grammars whose tokens conflict lexically but are valid in different contexts (an infix operator and a delimited
/// literal that starts with the operator's character, a minus sign and a negative literal, ...): state merging must
/// keep such tokens out of a common look-ahead set.
fn lexctx_grammar(t: &mut Tape, name: &str) -> (String, Vec<String>) {
    // (operator, pattern of the long token, samples of the long token)
    let pairs: [(&str, &str, [&str; 2]); 5] = [
        ("/", r"\\/[^/\\n]+\\/", ["/a/", "/1 /"]),
        ("|", r"\\|[a-z0-9 ]+\\|", ["|a|", "|1 |"]),
        ("-", r"-[0-9]+", ["-1", "-22"]),
        ("<", r"<[a-z]+>", ["<a>", "<if>"]),
        ("%", r"%[a-z]+", ["%a", "%if"]),
    ];
    if t.pct(30) {
        return same_core_grammar(t, name);
    }
    let k = t.below(pairs.len());
    let (op, long_pat, long_samples) = pairs[k];
    if t.pct(50) {
        // follow-set template: one sub-rule X used in two or three contexts that continue with lexically conflicting
        // tokens (the operator in one, the long token in another); LALR-style merging of X's states would put both
        // into one look-ahead set
        let x_rule = match t.below(4) {
            0 => r#"{"type":"SEQ","members":[{"type":"STRING","value":"("},{"type":"SYMBOL","name":"number"},{"type":"STRING","value":")"}]}"#.to_string(),
            1 => r#"{"type":"CHOICE","members":[{"type":"SYMBOL","name":"number"},{"type":"SEQ","members":[{"type":"STRING","value":"("},{"type":"SYMBOL","name":"x"},{"type":"STRING","value":")"}]}]}"#.to_string(),
            2 => r#"{"type":"REPEAT1","content":{"type":"SYMBOL","name":"number"}}"#.to_string(),
            _ => r#"{"type":"SEQ","members":[{"type":"SYMBOL","name":"number"},{"type":"CHOICE","members":[{"type":"SEQ","members":[{"type":"STRING","value":","},{"type":"SYMBOL","name":"number"}]},{"type":"BLANK"}]}]}"#.to_string(),
        };
        let esc = |s: &str| s.replace('\\', "\\\\").replace('"', "\\\"");
        let ctx_short = format!(r#"{{"type":"SEQ","members":[{{"type":"STRING","value":"a"}},{{"type":"SYMBOL","name":"x"}},{{"type":"STRING","value":"{}"}},{{"type":"SYMBOL","name":"number"}}]}}"#, esc(op));
        let ctx_long = r#"{"type":"SEQ","members":[{"type":"STRING","value":"b"},{"type":"SYMBOL","name":"x"},{"type":"SYMBOL","name":"long"}]}"#.to_string();
        let ctx_none = r#"{"type":"SEQ","members":[{"type":"STRING","value":"c"},{"type":"SYMBOL","name":"x"},{"type":"STRING","value":";"}]}"#.to_string();
        let mut ctxs: Vec<(&str, String)> = vec![("ctx_short", ctx_short), ("ctx_long", ctx_long)];
        if t.pct(40) {
            ctxs.push(("ctx_none", ctx_none));
        }
        // order of the contexts decides the state numbering
        let n = ctxs.len();
        for i in (1..n).rev() {
            let j = t.below(i + 1);
            ctxs.swap(i, j);
        }
        let members: Vec<String> = ctxs.iter().map(|(n, _)| format!(r#"{{"type":"SYMBOL","name":"{n}"}}"#)).collect();
        let mut rules: Vec<String> = vec![format!(r#""source": {{"type":"REPEAT","content":{{"type":"CHOICE","members":[{}]}}}}"#, members.join(","))];
        for (n, r) in &ctxs {
            rules.push(format!(r#""{n}": {r}"#));
        }
        rules.push(format!(r#""x": {x_rule}"#));
        rules.push(format!(r#""long": {{"type":"PATTERN","value":"{}"}}"#, long_pat));
        rules.push(r#""number": {"type":"PATTERN","value":"[0-9]+"}"#.to_string());
        let text = format!(r#"{{"name":"{name}","extras":[{{"type":"PATTERN","value":"\\s"}}],"conflicts":[],"precedences":[],"externals":[],"inline":[],"supertypes":[],"rules":{{{}}}}}"#, rules.join(","));
        let terms: Vec<String> = vec!["a".into(), "b".into(), "c".into(), "(".into(), ")".into(), "1".into(), ",".into(), ";".into(), op.to_string(), long_samples[0].to_string(), long_samples[1].to_string()];
        return (text, terms);
    }
    let second = if t.pct(35) { Some(pairs[(k + 1 + t.below(pairs.len() - 1)) % pairs.len()]) } else { None };
    let kw = *t.pick(&["if", "do", "not"]);
    let with_cond = t.pct(85);
    let with_call = t.pct(40);
    let with_stmt = t.pct(40);
    let cond_prec = *t.pick(&[1i32, 0, 2, -1]);
    let assoc = *t.pick(&["PREC_LEFT", "PREC_RIGHT"]);
    let mut members = vec!["binary", "long", "number", "parenthesized"];
    if with_cond {
        members.push("conditional");
    }
    if with_call {
        members.push("call");
    }
    if second.is_some() {
        members.push("binary2");
        members.push("long2");
    }
    let mem_json: Vec<String> = members.iter().map(|m| format!(r#"{{"type":"SYMBOL","name":"{m}"}}"#)).collect();
    let mut rules: Vec<String> = vec![];
    let esc = |s: &str| s.replace('\\', "\\\\").replace('"', "\\\"");
    if with_stmt {
        rules.push(r#""program": {"type":"REPEAT","content":{"type":"SEQ","members":[{"type":"SYMBOL","name":"expression"},{"type":"STRING","value":";"}]}}"#.to_string());
    }
    rules.push(format!(r#""expression": {{"type":"CHOICE","members":[{}]}}"#, mem_json.join(",")));
    rules.push(format!(r#""binary": {{"type":"{assoc}","value":0,"content":{{"type":"SEQ","members":[{{"type":"SYMBOL","name":"expression"}},{{"type":"STRING","value":"{}"}},{{"type":"SYMBOL","name":"expression"}}]}}}}"#, esc(op)));
    rules.push(format!(r#""long": {{"type":"PATTERN","value":"{}"}}"#, long_pat));
    if let Some((op2, pat2, _)) = second {
        rules.push(format!(r#""binary2": {{"type":"PREC_LEFT","value":1,"content":{{"type":"SEQ","members":[{{"type":"SYMBOL","name":"expression"}},{{"type":"STRING","value":"{}"}},{{"type":"SYMBOL","name":"expression"}}]}}}}"#, esc(op2)));
        rules.push(format!(r#""long2": {{"type":"PATTERN","value":"{}"}}"#, pat2));
    }
    rules.push(r#""number": {"type":"PATTERN","value":"[0-9]+"}"#.to_string());
    rules.push(r#""parenthesized": {"type":"SEQ","members":[{"type":"STRING","value":"("},{"type":"SYMBOL","name":"expression"},{"type":"STRING","value":")"}]}"#.to_string());
    if with_cond {
        rules.push(format!(r#""conditional": {{"type":"PREC_LEFT","value":{cond_prec},"content":{{"type":"SEQ","members":[{{"type":"STRING","value":"{kw}"}},{{"type":"SYMBOL","name":"parenthesized"}},{{"type":"SYMBOL","name":"expression"}}]}}}}"#));
    }
    if with_call {
        rules.push(r#""call": {"type":"PREC","value":5,"content":{"type":"SEQ","members":[{"type":"STRING","value":"f"},{"type":"SYMBOL","name":"parenthesized"}]}}"#.to_string());
    }
    let text = format!(r#"{{"name":"{name}","extras":[{{"type":"PATTERN","value":"\\s"}}],"conflicts":[],"precedences":[],"externals":[],"inline":[],"supertypes":[],"rules":{{{}}}}}"#, rules.join(","));
    let mut terms: Vec<String> = vec![op.to_string(), long_samples[0].to_string(), long_samples[1].to_string(), "1".into(), "(".into(), ")".into()];
    if with_cond {
        terms.push(kw.to_string());
    }
    if with_call {
        terms.push("f".into());
    }
    if with_stmt {
        terms.push(";".into());
    }
    if let Some((op2, _, s2)) = second {
        terms.push(op2.to_string());
        terms.push(s2[0].to_string());
    }
    (text, terms)
}

/// Same-core template: C contexts (distinguished by a prefix token) each use R rules with one and the same body, told
/// apart only by the token that follows; the assignment of following tokens to rules is a tape-chosen permutation per
/// context. The LR(1) states after the body share one item-set core in all contexts; two contexts may be merged only
/// if their assignments agree, so with three or more contexts the merger has to separate groups of states that
/// conflict pairwise.
fn same_core_grammar(t: &mut Tape, name: &str) -> (String, Vec<String>) {
    let n_ctx = 2 + t.weighted(&[20, 50, 30]);
    let n_rules = 2 + t.weighted(&[35, 45, 20]);
    let las = ["x", "y", "z", "w"];
    let (body, body_terms): (&str, &[&str]) = match t.below(4) {
        0 => (r#"{"type":"SEQ","members":[{"type":"STRING","value":"a"},{"type":"STRING","value":"p"}]}"#, &["a", "p"]),
        1 => (r#"{"type":"STRING","value":"a"}"#, &["a"]),
        2 => (r#"{"type":"SEQ","members":[{"type":"STRING","value":"("},{"type":"SYMBOL","name":"number"},{"type":"STRING","value":")"}]}"#, &["(", "1", ")"]),
        _ => (r#"{"type":"REPEAT1","content":{"type":"STRING","value":"a"}}"#, &["a"]),
    };
    let mut seqs: Vec<String> = vec![];
    for c in 0..n_ctx {
        // rotation (most likely to make every pair of contexts conflict) or an arbitrary permutation
        let mut perm: Vec<usize> = (0..n_rules).collect();
        if t.pct(60) {
            perm.rotate_left(c % n_rules);
        } else {
            for i in (1..n_rules).rev() {
                let j = t.below(i + 1);
                perm.swap(i, j);
            }
        }
        for r in 0..n_rules {
            seqs.push(format!(r#"{{"type":"SEQ","members":[{{"type":"STRING","value":"{}"}},{{"type":"SYMBOL","name":"r{r}"}},{{"type":"STRING","value":"{}"}}]}}"#, c + 1, las[perm[r]]));
        }
    }
    // order of the alternatives decides the state numbering
    for i in (1..seqs.len()).rev() {
        if t.pct(30) {
            let j = t.below(i + 1);
            seqs.swap(i, j);
        }
    }
    let choice = format!(r#"{{"type":"CHOICE","members":[{}]}}"#, seqs.join(","));
    let source = if t.pct(50) { choice } else { format!(r#"{{"type":"REPEAT","content":{choice}}}"#) };
    let mut rules = vec![format!(r#""source": {source}"#)];
    for r in 0..n_rules {
        rules.push(format!(r#""r{r}": {body}"#));
    }
    rules.push(r#""number": {"type":"PATTERN","value":"[0-9]+"}"#.to_string());
    let text = format!(r#"{{"name":"{name}","extras":[{{"type":"PATTERN","value":"\\s"}}],"conflicts":[],"precedences":[],"externals":[],"inline":[],"supertypes":[],"rules":{{{}}}}}"#, rules.join(","));
    let mut terms: Vec<String> = (0..n_ctx).map(|c| (c + 1).to_string()).collect();
    terms.extend(body_terms.iter().map(|x| x.to_string()));
    terms.extend(las[..n_rules].iter().map(|x| x.to_string()));
    terms.dedup();
    (text, terms)
}

fn t_wild(t: &mut Tape) -> bool {
    t.pct(20)
}
