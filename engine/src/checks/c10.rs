//! C10: editing a tree (without re-parsing) keeps every untouched node in sync with the new text.
use crate::core::{Check, Ctx, Tier};
use crate::gen::doc::{self, DocClass};
use crate::gen::edits::EditGen;
use crate::lang;
use crate::model::text::{show_bytes, Text};
use crate::model::xtree::{kind_name, xtree_diff, EqOpts, XTree};
use crate::tape::{fnv, Tape};
use serde_json::json;
use tree_sitter::{Parser, Point, Range};

pub struct C10;

const LANGS: &[&str] = &["mini", "arith", "json", "indent", "heredoc", "glr", "tmpl", "alias"];

impl Check for C10 {
    fn id(&self) -> &'static str {
        "C10"
    }
    fn rule(&self) -> String {
        "case = zoo language x document (60% sentence, 40% mutated/erroneous) [x included ranges in 15%] x 1-5 edits applied with Tree::edit and NO re-parse (positions: node boundaries +-1, padding, zero-width nodes, line ends, BOF/EOF, inside tokens; inserted text incl. newlines). After every edit the edited tree is walked in lock-step with the pre-edit explicit tree: same shape; nodes ending before the change keep bytes+points; nodes starting after it shift by the byte delta and - if their points agreed with the text before - agree with the new text after; nodes strictly overlapping the change and all their ancestors have has_changes; stored included ranges strictly before/after map the same way; Node::edit, InputEdit::edit_point and edit_range agree with the reference mapping. evaluations = edits checked. Non-trivial: tree >= 10 nodes and the edit changes the number of lines or touches a node boundary; distinct by hash(language, text, edit).".into()
    }
    fn cases(&self, tier: Tier) -> u64 {
        match tier {
            Tier::Quick => 100_000,
            Tier::Thorough => 2_000_000,
        }
    }
    fn langs(&self) -> Vec<&'static str> {
        LANGS.to_vec()
    }
    fn floors(&self) -> Vec<(&'static str, f64)> {
        vec![("#multi_line_edit", 0.15), ("#boundary_edit", 0.25), ("edits>=2", 0.30), ("tree:erroneous", 0.2)]
    }
    fn run_case(&self, ctx: &mut Ctx, t: &mut Tape) {
        let lname = LANGS[t.weighted(&[28, 11, 11, 13, 11, 9, 9, 8])];
        let lang = lang::zoo(lname);
        let class = if t.pct(60) { DocClass::Sentence } else { DocClass::Mutated };
        let bytes = doc::gen_doc(lang, class, t);
        if bytes.len() > 30_000 {
            ctx.discard("document too large");
            return;
        }
        let mut text = Text::new(bytes);
        let mut parser = Parser::new();
        parser.set_language(&lang.language).unwrap();
        let mut with_ranges = false;
        if t.pct(15) {
            let r = crate::checks::c02::gen_ranges(t, &text);
            if parser.set_included_ranges(&r).is_ok() {
                with_ranges = true;
                ctx.label("with_ranges");
            }
        }
        let mut tree = match parser.parse(&text.bytes, None) {
            Some(t) => t,
            None => {
                ctx.discard("no tree");
                return;
            }
        };
        ctx.label(format!("lang:{lname}"));
        ctx.label_if(tree.root_node().has_error(), "tree:erroneous");
        let n_edits = 1 + t.weighted(&[45, 25, 15, 10, 5]);
        ctx.label_if(n_edits >= 2, "edits>=2");
        let mut eg = EditGen::new();
        let mut descs = vec![];
        let mut nontrivial = false;
        let l = &lang.language;
        for step in 0..n_edits {
            let p = XTree::build(&tree);
            let old_text = text.clone();
            // edit: half from the generic generator, half placed at node boundaries of the current tree
            let edit = if t.pct(50) && p.len() > 1 {
                let n = &p.nodes[t.below(p.len())];
                let anchor = if t.pct(50) { n.start } else { n.end };
                let off = *t.pick(&[0i64, 0, 1, -1, 2]);
                let len = text.len() as i64;
                let s = (anchor as i64 + off).clamp(0, len) as usize;
                let dl = *t.pick(&[0usize, 0, 1, 2, 5]);
                let o = (s + dl).min(text.len());
                let ins: &[u8] = *t.pick(&[&b""[..], b"x", b" ", b"\n", b"ab\ncd", b"\n\n", "é".as_bytes(), b"(", b"longer inserted text"]);
                let mut ins = ins.to_vec();
                if o == s && ins.is_empty() {
                    ins = b"y".to_vec();
                }
                ctx.count("boundary_edit");
                crate::model::text::Edit { start: s, old_end: o, inserted: ins }
            } else {
                eg.next(lang, &text, t).edit
            };
            let pre_ranges: Vec<Range> = tree.included_ranges();
            let snapshot = tree.clone();
            // hidden nodes, look-ahead bytes and has-changes of every subtree, through the runtime's dot dump
            let use_dot = step == 0 && !with_ranges && text.len() <= 4000 && t.pct(30);
            let scratch = lang::work_dir().join(format!("c10-{}.dot", std::process::id()));
            let dot_pre = if use_dot { crate::model::dot::dot_of(&tree, &scratch) } else { None };
            if let Some(d) = &dot_pre {
                ctx.label("dot");
                // a parent's look-ahead reaches as far as the furthest look-ahead of its children
                for (i, n) in d.iter().enumerate() {
                    if n.children.is_empty() {
                        continue;
                    }
                    let want = n.children.iter().map(|&c| d[c].end + d[c].lookahead).max().unwrap();
                    if n.end + n.lookahead != want {
                        ctx.fail("C10:lookahead_summary", format!("subtree #{i} {:?} {}..{} has lookahead-bytes {} (reaches {}), its children's look-ahead reaches {}\nlang={lname} text={:?}", n.label, n.start, n.end, n.lookahead, n.end + n.lookahead, want, show_bytes(&text.bytes, 300)));
                        return;
                    }
                }
            }
            let ie = text.apply(&edit);
            tree.edit(&ie);
            if let Some(d) = &dot_pre {
                if let Some(post) = crate::model::dot::dot_of(&tree, &scratch) {
                    ctx.out.inner += 1;
                    if post.len() == d.len() {
                        let (s, o) = (edit.start, edit.old_end);
                        for (i, n) in d.iter().enumerate() {
                            // the change lies inside the node's text or inside the bytes it looked at
                            // (text inserted exactly at a node's start - padding included - belongs to the previous node)
                            let touches = (n.start < s && s < n.end + n.lookahead) || (s <= n.start && n.start < o);
                            if touches && !post[i].has_changes {
                                let sig = if s >= n.end { "C10:has_changes_missing:lookahead" } else { "C10:has_changes_missing:hidden_or_visible" };
                                ctx.fail(sig, format!("edit {s}..{o} -> {:?}: subtree #{i} {:?} spans {}..{} and looked ahead {} bytes, but has-changes is 0 after the edit\nlang={lname} text before={:?}", show_bytes(&edit.inserted, 30), n.label, n.start, n.end, n.lookahead, show_bytes(&old_text.bytes, 300)));
                                return;
                            }
                        }
                    } else {
                        ctx.fail("C10:shape_changed:dot", format!("the edit changed the number of subtrees: {} -> {}", d.len(), post.len()));
                        return;
                    }
                }
            }
            ctx.out.inner += 1;
            let e = XTree::build(&tree);
            let s = edit.start;
            let o = edit.old_end;
            let nn = edit.start + edit.inserted.len();
            let delta = nn as i64 - o as i64;
            let desc = format!("{}..{} -> {:?}", s, o, show_bytes(&edit.inserted, 30));
            descs.push(desc.clone());
            let multi_line = edit.inserted.contains(&b'\n') || old_text.bytes[s..o].contains(&b'\n');
            ctx.count_if(multi_line, "multi_line_edit");
            let msg = |i: usize, what: &str| -> String {
                let x = &p.nodes[i];
                let y = &e.nodes[i];
                format!(
                    "{what}\nlang={lname} step={step} edits so far={:?}\nnode #{i} {} kind={:?}: before bytes {}..{} points {:?}..{:?}; after bytes {}..{} points {:?}..{:?} has_changes={}\ntext before={:?}\ntext after={:?}",
                    descs,
                    p.path_kinds(i, l),
                    kind_name(l, x.kind_id),
                    x.start,
                    x.end,
                    x.sp,
                    x.ep,
                    y.start,
                    y.end,
                    y.sp,
                    y.ep,
                    y.has_changes,
                    show_bytes(&old_text.bytes, std::env::var("VERIF_SHOW").ok().and_then(|v| v.parse().ok()).unwrap_or(300)),
                    show_bytes(&text.bytes, 300)
                )
            };
            // same shape
            if let Some((i, _j, d)) = xtree_diff(&p, &e, EqOpts { ranges: false, points: false, flags: true, has_changes: false, ids: false }) {
                ctx.fail("C10:shape_changed", msg(i, &format!("the edit call changed the tree's shape: {d}")));
                return;
            }
            let mut touched_boundary = false;
            let mut must_change = vec![false; p.len()];
            for i in 0..p.len() {
                let x = &p.nodes[i];
                let y = &e.nodes[i];
                if x.end < s {
                    if (x.start, x.end, x.sp, x.ep) != (y.start, y.end, y.sp, y.ep) {
                        ctx.fail("C10:before_edit_moved", msg(i, "a node that ends before the change moved"));
                        return;
                    }
                } else if x.start > o {
                    let es = (x.start as i64 + delta) as usize;
                    let ee = (x.end as i64 + delta) as usize;
                    if (y.start, y.end) != (es, ee) {
                        ctx.fail("C10:after_edit_bytes", msg(i, &format!("a node that starts after the change should move to {es}..{ee}")));
                        return;
                    }
                    let osp = old_text.point_of(x.start);
                    let oep = old_text.point_of(x.end);
                    if (osp.row, osp.column) == x.sp {
                        let nsp = text.point_of(es);
                        if (nsp.row, nsp.column) != y.sp {
                            // discriminant of a listed finding: on the edit's own row the column comes out short by exactly
                            // the edit's start column (seen after an insertion inside a multi-row token of a column-dependent parent)
                            let ecol = text.point_of(s).column;
                            let sig = if nsp.row == y.sp.0 && nsp.row == text.point_of(s).row && ecol > 0 && y.sp.1 < nsp.column && nsp.column - y.sp.1 <= ecol && lname == "indent" {
                                "C10:after_edit_start_point:short_by_at_most_edit_column_in_indent_grammar"
                            } else {
                                "C10:after_edit_start_point"
                            };
                            ctx.fail(sig, msg(i, &format!("start point should be {:?}", (nsp.row, nsp.column))));
                            return;
                        }
                    }
                    if (oep.row, oep.column) == x.ep {
                        let nep = text.point_of(ee);
                        if (nep.row, nep.column) != y.ep {
                            ctx.fail("C10:after_edit_end_point", msg(i, &format!("end point should be {:?}", (nep.row, nep.column))));
                            return;
                        }
                    }
                } else {
                    touched_boundary |= x.start == s || x.end == s || x.start == o || x.end == o;
                    let strict = if s == o { x.start < s && s < x.end } else { x.start < o && x.end > s };
                    if strict {
                        must_change[i] = true;
                    }
                    // stays well-formed
                    if !(y.start <= y.end && y.end <= text.len().max(y.end.min(text.len()))) || y.start > y.end {
                        ctx.fail("C10:overlapping_node_malformed", msg(i, "node overlapping the change is malformed after the edit"));
                        return;
                    }
                }
            }
            // has_changes on overlapping nodes and all ancestors
            for i in 0..p.len() {
                if must_change[i] {
                    let mut k = Some(i);
                    while let Some(j) = k {
                        if !e.nodes[j].has_changes {
                            ctx.fail("C10:has_changes_missing", msg(j, &format!("node (or ancestor of node #{i}) overlapping the change does not report has_changes")));
                            return;
                        }
                        k = p.nodes[j].parent;
                    }
                }
            }
            // stored included ranges
            let post_ranges = tree.included_ranges();
            if post_ranges.len() != pre_ranges.len() {
                ctx.fail("C10:ranges:count_changed", format!("{} -> {} ranges; edits={:?}", pre_ranges.len(), post_ranges.len(), descs));
                return;
            }
            for (a, b) in pre_ranges.iter().zip(post_ranges.iter()) {
                let whole_default = a.end_byte == u32::MAX as usize || a.end_byte >= (u32::MAX as usize) - 1;
                if a.end_byte < s {
                    if (a.start_byte, a.end_byte, a.start_point, a.end_point) != (b.start_byte, b.end_byte, b.start_point, b.end_point) {
                        ctx.fail("C10:ranges:before_edit_moved", format!("range {a:?} -> {b:?}; edit {desc}; edits={:?}", descs));
                        return;
                    }
                } else if a.start_byte > o && !whole_default {
                    let es = (a.start_byte as i64 + delta) as usize;
                    let ee = (a.end_byte as i64 + delta) as usize;
                    if (b.start_byte, b.end_byte) != (es, ee) {
                        ctx.fail("C10:ranges:after_edit_bytes", format!("range {a:?} -> {b:?}, expected bytes {es}..{ee}; edit {desc}; edits={:?}", descs));
                        return;
                    }
                    if a.start_point == old_text.point_of(a.start_byte) && a.start_byte <= old_text.len() && b.start_point != text.point_of(es) {
                        ctx.fail("C10:ranges:after_edit_point", format!("range {a:?} -> {b:?}, expected start point {:?}; edit {desc}", text.point_of(es)));
                        return;
                    }
                } else if b.start_byte > b.end_byte {
                    ctx.fail("C10:ranges:reversed", format!("range {a:?} -> {b:?}; edit {desc}"));
                    return;
                }
            }
            // Node::edit on handles of the untouched snapshot follows the tree edit for nodes before/after the change
            {
                let (sx, handles) = XTree::build_nodes(snapshot.root_node());
                if sx.len() == p.len() {
                    let step_by = (p.len() / 40).max(1);
                    let mut i = 0;
                    while i < p.len() {
                        let x = &p.nodes[i];
                        if x.end < s || x.start > o {
                            let mut h = handles[i];
                            h.edit(&ie);
                            let y = &e.nodes[i];
                            let hp = h.start_position();
                            if h.start_byte() != y.start || (hp.row, hp.column) != y.sp {
                                ctx.fail("C10:node_edit", msg(i, &format!("Node::edit moved the node start to byte {} point {:?}", h.start_byte(), hp)));
                                return;
                            }
                        }
                        i += step_by;
                    }
                }
            }
            // stand-alone functions: edit_point / edit_range / Node::edit follow the same mapping
            {
                let probes: Vec<usize> = vec![0, s.saturating_sub(1), o + 1, o + 7, old_text.len()];
                for &b0 in &probes {
                    let b0 = b0.min(old_text.len());
                    if b0 < s || b0 > o {
                        let mut pt: Point = old_text.point_of(b0);
                        let mut by = b0;
                        ie.edit_point(&mut pt, &mut by);
                        let eb = if b0 < s { b0 } else { (b0 as i64 + delta) as usize };
                        if by != eb || pt != text.point_of(eb) {
                            ctx.fail("C10:edit_point", format!("edit_point(byte {b0}) gave byte {by} point {pt:?}, expected byte {eb} point {:?}; edit {desc}; text before={:?}", text.point_of(eb), show_bytes(&old_text.bytes, 200)));
                            return;
                        }
                        let b1 = (b0 + 3).min(old_text.len());
                        if b0 > o {
                            let mut r = Range { start_byte: b0, end_byte: b1, start_point: old_text.point_of(b0), end_point: old_text.point_of(b1) };
                            ie.edit_range(&mut r);
                            let e1 = (b1 as i64 + delta) as usize;
                            if (r.start_byte, r.end_byte) != (eb, e1) || r.start_point != text.point_of(eb) || r.end_point != text.point_of(e1) {
                                ctx.fail("C10:edit_range", format!("edit_range({b0}..{b1}) gave {r:?}; expected {eb}..{e1}; edit {desc}"));
                                return;
                            }
                        }
                    }
                }
            }
            nontrivial |= p.len() >= 10 && (multi_line || touched_boundary);
            if p.len() >= 10 && (multi_line || touched_boundary) {
                ctx.out.inner_hashes.push(fnv(format!("{lname}|{:?}|{desc}", old_text.bytes).as_bytes()));
            }
        }
        let _ = with_ranges;
        ctx.out.nontrivial = nontrivial;
        ctx.out.hash = fnv(format!("{lname}|{:?}|{:?}", text.bytes, descs).as_bytes());
        if ctx.want_sample {
            ctx.out.sample = json!({"lang": lname, "edits": descs, "final_text": show_bytes(&text.bytes, 160)});
        }
    }
}

