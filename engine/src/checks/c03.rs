//! C03: a generated parser recognises exactly its grammar and builds its derivation.
use crate::core::{Check, Ctx, Tier};
use crate::gen::grammar::{self, G, R};
use crate::gen::sentence::SentenceGen;
use crate::lang;
use crate::model::cfg::{self, SpanParser};
use crate::model::xtree::XTree;
use crate::tape::{fnv, Tape};
use serde_json::{json, Value};
use tree_sitter::Parser;
use tree_sitter_generate::OptLevel;

pub struct C03;

pub fn terminals_of(g: &G) -> Vec<String> {
    fn walk(r: &R, out: &mut Vec<String>) {
        match r {
            R::Str(s) => {
                if !out.contains(s) {
                    out.push(s.clone());
                }
            }
            R::Seq(v) | R::Choice(v) => v.iter().for_each(|x| walk(x, out)),
            R::Repeat(x) | R::Repeat1(x) | R::Token(x) | R::Field(_, x) => walk(x, out),
            R::Alias { content, .. } | R::Prec { content, .. } => walk(content, out),
            _ => {}
        }
    }
    let mut out = vec![];
    for (_, r) in &g.rules {
        walk(r, &mut out);
    }
    out
}

/// all token strings over `terms` up to the largest length whose total count stays <= cap
pub fn enumerate_strings(terms: &[String], cap: usize, max_len: usize) -> Vec<Vec<String>> {
    let mut out: Vec<Vec<String>> = vec![vec![]];
    let mut layer: Vec<Vec<String>> = vec![vec![]];
    for _ in 0..max_len {
        if layer.len().saturating_mul(terms.len()) + out.len() > cap {
            break;
        }
        let mut next = Vec::with_capacity(layer.len() * terms.len());
        for s in &layer {
            for t in terms {
                let mut x = s.clone();
                x.push(t.clone());
                next.push(x);
            }
        }
        out.extend(next.iter().cloned());
        layer = next;
    }
    out
}

pub fn join_tokens(toks: &[String]) -> (String, Vec<usize>, Vec<usize>) {
    let mut s = String::new();
    let mut st = vec![];
    let mut en = vec![];
    for (i, t) in toks.iter().enumerate() {
        if i > 0 {
            s.push(' ');
        }
        st.push(s.len());
        s.push_str(t);
        en.push(s.len());
    }
    (s, st, en)
}

/// random derivations of the grammar as token lists (own expansion over the JSON form)
pub fn random_derivations(gjson: &Value, t: &mut Tape, n: usize, max_tokens: usize) -> Vec<Vec<String>> {
    let sg = SentenceGen::new(gjson, &Value::Null);
    let start = sg.start.to_string();
    let mut out = vec![];
    for _ in 0..n {
        let b = 2 + t.below(24) as u32;
        let toks: Vec<String> = sg.derive(t, &start, b).into_iter().map(|k| k.text).collect();
        if toks.len() <= max_tokens {
            out.push(toks);
        }
    }
    out
}

impl Check for C03 {
    fn id(&self) -> &'static str {
        "C03"
    }
    fn rule(&self) -> String {
        "case = one generated grammar, compiled with /repo's generator and runtime: (a) 75% random CFG of 2-7 rules over 3-6 literal terminals, built to be conflict-free (every alternative starts with its own literal; repeats/optionals closed by a literal), with hidden and inlined rules, named/anonymous aliases, fields, bracketed recursion - a quarter of them 'wild' (discipline dropped; the generator may reject them: counted, not judged); (b) 25% operator tables of 1-5 precedence levels (left/right binary, prefix, postfix operators, parentheses). Strings per grammar: EVERY token string up to the largest length with <= 2500 strings in total, 120 random derivations (<= 40 tokens) and their single-token mutations. Oracle: own span parser over the grammar AST (derives(s) <=> no ERROR/MISSING; on derivable strings the unique derivation, mapped through the visibility rules - hidden/inlined rules spliced, aliases renamed, fields attached, repeats flattened - must equal the parser's tree incl. token extents); for (b) an own precedence-climbing parser. The zoo grammar with declared conflicts and dynamic precedence is judged in the same way on its ambiguous statements (the declaration reading, dynamic precedence 1, must win). evaluations = strings judged. Non-trivial: grammar accepted, >= 3 rules, string of >= 2 tokens; distinct by hash(grammar, string).".into()
    }
    fn cases(&self, tier: Tier) -> u64 {
        match tier {
            Tier::Quick => 1000,
            Tier::Thorough => 8000,
        }
    }
    fn langs(&self) -> Vec<&'static str> {
        vec!["glr"]
    }
    fn floors(&self) -> Vec<(&'static str, f64)> {
        vec![("grammar:accepted", 0.6), ("feat:hidden", 0.15), ("feat:alias", 0.15), ("feat:field", 0.15), ("feat:inline", 0.08), ("family:operators", 0.12)]
    }
    fn watchdog_s(&self) -> u64 {
        300
    }
    fn run_case(&self, ctx: &mut Ctx, t: &mut Tape) {
        let family = t.weighted(&[70, 25, 5]);
        if family == 2 {
            glr_case(ctx, t);
            return;
        }
        let name = format!("g{}", t.u16());
        let (g, levels) = if family == 0 {
            let wild = t.pct(25);
            ctx.label_if(wild, "grammar:wild");
            let (g, f) = grammar::gen_cfg(t, &name, wild);
            ctx.label("family:cfg");
            ctx.label_if(f.hidden, "feat:hidden");
            ctx.label_if(f.inline, "feat:inline");
            ctx.label_if(f.alias, "feat:alias");
            ctx.label_if(f.field, "feat:field");
            ctx.label_if(f.repeat, "feat:repeat");
            ctx.label_if(f.recursive, "feat:recursive");
            (g, None)
        } else {
            ctx.label("family:operators");
            let (g, l) = grammar::gen_op_grammar(t, &name);
            (g, Some(l))
        };
        let gtext = g.to_json();
        let gjson: Value = serde_json::from_str(&gtext).unwrap();
        let tl = match lang::temp_lang(&gtext, OptLevel::default()) {
            Ok(l) => l,
            Err(e) => {
                ctx.label("grammar:rejected");
                let first = e.lines().next().unwrap_or("").to_string();
                ctx.label(format!("rejected:{}", first.chars().take(40).collect::<String>()));
                ctx.out.hash = fnv(gtext.as_bytes());
                if ctx.want_sample {
                    ctx.out.sample = json!({"grammar": gjson["rules"], "rejected": first});
                }
                return;
            }
        };
        ctx.label("grammar:accepted");
        let mut parser = Parser::new();
        parser.set_language(&tl.language).unwrap();
        let mut terms = terminals_of(&g);
        if levels.is_some() {
            terms.push("x".into());
            terms.push("1".into());
        } else if terms.len() < 7 {
            // one terminal the grammar does not use at all
            terms.push("z".into());
        }
        let mut strings = enumerate_strings(&terms, 2500, 8);
        let ders = random_derivations(&gjson, t, 120, 40);
        for d in &ders {
            strings.push(d.clone());
            if !d.is_empty() {
                let mut m = d.clone();
                let i = t.below(m.len());
                match t.below(3) {
                    0 => {
                        m.remove(i);
                    }
                    1 => m.insert(i, t.pick(&terms).clone()),
                    _ => m[i] = t.pick(&terms).clone(),
                }
                strings.push(m);
            }
        }
        let mut accepted = 0usize;
        let n_rules = g.rules.len();
        let mut sample_strs: Vec<String> = vec![];
        for toks in &strings {
            let (text, st, en) = join_tokens(toks);
            let tree = match parser.parse(&text, None) {
                Some(t) => t,
                None => {
                    ctx.fail("C03:no_tree", format!("{text:?}"));
                    return;
                }
            };
            ctx.out.inner += 1;
            let xt = XTree::build(&tree);
            let has_err = tree.root_node().has_error() || xt.any_error();
            let describe = |what: &str, extra: &str| -> String { format!("{what}\nstring={text:?}\ntree={}\n{extra}\ngrammar={}", xt.render(&tl.language, 80), serde_json::to_string(&gjson["rules"]).unwrap_or_default()) };
            let expected: Vec<cfg::VNode> = match &levels {
                Some(lv) => cfg::pratt_program(lv, toks).into_iter().collect(),
                None => {
                    let mut sp = SpanParser::new(&g, toks);
                    let d = sp.parse_start();
                    if sp.gave_up {
                        ctx.count("reference_gave_up");
                        continue;
                    }
                    d
                }
            };
            if toks.len() >= 2 && n_rules >= 3 {
                ctx.out.inner_hashes.push(fnv(format!("{gtext}|{text}").as_bytes()));
            }
            if expected.is_empty() {
                if !has_err {
                    ctx.fail("C03:accepts_underivable", describe("the parser reports no error but the grammar does not derive the string", ""));
                    return;
                }
                continue;
            }
            accepted += 1;
            if sample_strs.len() < 3 && toks.len() >= 3 {
                sample_strs.push(text.clone());
            }
            if has_err {
                // known finding: an LR conflict that the generator reports for the same grammar WITHOUT its `inline` list is
                // resolved silently (and wrongly) once the rule is inlined into a repetition
                let hidden_conflict = serde_json::from_str::<serde_json::Value>(&gtext)
                    .ok()
                    .filter(|g| g["inline"].as_array().map(|a| !a.is_empty()).unwrap_or(false))
                    .map(|mut g| {
                        g["inline"] = serde_json::json!([]);
                        matches!(lang::generate_c(&g.to_string(), OptLevel::default()), Err(e) if e.contains("Unresolved conflict"))
                    })
                    .unwrap_or(false);
                let sig = if hidden_conflict { "C03:rejects_derivable:conflict_hidden_by_inlining" } else { "C03:rejects_derivable" };
                ctx.fail(sig, describe("the grammar derives the string but the parser reports an error", &format!("derivation={}", cfg::render(&expected[0]))));
                if hidden_conflict {
                    break;
                }
                return;
            }
            if expected.len() >= 2 {
                ctx.count("ambiguous_by_reference");
                if !expected.iter().any(|e| cfg::compare(e, &xt, 0, &tl.language, &st, &en, true).is_none()) {
                    ctx.fail("C03:tree_is_no_derivation", describe("the tree equals none of the grammar's derivations", &format!("derivations={} | {}", cfg::render(&expected[0]), cfg::render(&expected[1]))));
                    return;
                }
                continue;
            }
            if let Some(d) = cfg::compare(&expected[0], &xt, 0, &tl.language, &st, &en, true) {
                let sig = if levels.is_some() { "C03:precedence_tree_differs" } else { "C03:tree_differs_from_derivation" };
                ctx.fail(sig, describe(&d, &format!("expected={}", cfg::render(&expected[0]))));
                return;
            }
        }
        ctx.count_if(accepted * 10 >= strings.len() && accepted * 10 <= strings.len() * 9, "accept_rate_10_90");
        ctx.out.nontrivial = true;
        ctx.out.hash = fnv(gtext.as_bytes());
        if ctx.want_sample {
            ctx.out.sample = json!({"grammar_rules": gjson["rules"], "inline": g.inline, "strings": strings.len(), "accepted": accepted, "examples": sample_strs});
        }
    }
}

/// the zoo grammar with declared conflicts: ambiguous statements must take the reading with the greater dynamic precedence
fn glr_case(ctx: &mut Ctx, t: &mut Tape) {
    ctx.label("family:glr");
    let lang = lang::zoo("glr");
    let mut parser = Parser::new();
    parser.set_language(&lang.language).unwrap();
    let ids = ["a", "b", "T", "x1"];
    let n = 1 + t.below(6);
    let mut text = String::new();
    let mut expect: Vec<&'static str> = vec![];
    for _ in 0..n {
        match t.below(5) {
            0 => {
                // "a * b;" : declaration (pointer) beats multiplication
                text.push_str(&format!("{} {} {} ;\n", t.pick(&ids), "*".repeat(1 + t.below(3)), t.pick(&ids)));
                expect.push("declaration");
            }
            1 => {
                // "a < b > c;" : generic declaration beats comparison chain
                text.push_str(&format!("{} < {} > {} ;\n", t.pick(&ids), t.pick(&ids), t.pick(&ids)));
                expect.push("declaration");
            }
            2 => {
                // unambiguous expressions
                text.push_str(&format!("{} * 2 ;\n", t.pick(&ids)));
                expect.push("expression_statement");
            }
            3 => {
                text.push_str(&format!("( {} ) * {} ;\n", t.pick(&ids), t.pick(&ids)));
                expect.push("expression_statement");
            }
            _ => {
                text.push_str(&format!("{} < {} ;\n", t.pick(&ids), t.pick(&ids)));
                expect.push("expression_statement");
            }
        }
    }
    let tree = parser.parse(&text, None).unwrap();
    ctx.out.inner += 1;
    let xt = XTree::build(&tree);
    if tree.root_node().has_error() {
        ctx.fail("C03:glr:rejects_derivable", format!("{text:?} -> {}", xt.render(&lang.language, 80)));
        return;
    }
    let kinds: Vec<&str> = xt.nodes[0].children.iter().map(|&c| crate::model::xtree::kind_name(&lang.language, xt.nodes[c].kind_id)).collect();
    if kinds != expect {
        ctx.fail("C03:glr:dynamic_precedence_not_respected", format!("statements parsed as {:?}, expected {:?} (declarations carry dynamic precedence 1)\ntext={text:?}\ntree={}", kinds, expect, xt.render(&lang.language, 80)));
        return;
    }
    ctx.out.nontrivial = n >= 2;
    ctx.out.hash = fnv(text.as_bytes());
    ctx.out.inner_hashes.push(fnv(text.as_bytes()));
    if ctx.want_sample {
        ctx.out.sample = json!({"glr_text": text, "expected_statement_kinds": expect});
    }
}
