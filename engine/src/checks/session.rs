//! Edit sessions shared by C01 (incremental == scratch) and C04 (changed ranges cover changed stacks).
use crate::core::{Check, Ctx, Tier};
use crate::drive::{self, Chunking};
use crate::gen::doc::{self, DocClass};
use crate::gen::edits::EditGen;
use crate::lang::{self, Lang};
use crate::model::text::{show_bytes, Text};
use crate::model::xtree::{kind_name, xtree_diff, EqOpts, XTree};
use crate::tape::{fnv, Tape};
use serde_json::json;
use tree_sitter::{Parser, Range, Tree};

#[derive(Clone, Copy, PartialEq, Eq)]
pub enum Mode {
    C01,
    C04,
}

pub const LANGS: &[&str] = &["mini", "indent", "heredoc", "glr", "tmpl", "arith", "json", "alias"];
pub const LANG_W: &[u32] = &[20, 16, 13, 11, 8, 7, 7, 18];

/// code regions of a tmpl document (reference scanner, independent of any tree): the text between
/// "<%" / "<%=" and the next "%>" (or EOF)
pub fn tmpl_code_regions(text: &[u8]) -> Vec<(usize, usize)> {
    let mut out = vec![];
    let mut i = 0;
    while i + 1 < text.len() {
        if text[i] == b'<' && text[i + 1] == b'%' {
            let mut s = i + 2;
            if s < text.len() && text[s] == b'=' {
                s += 1;
            }
            let mut e = s;
            while e < text.len() && !(text[e] == b'%' && e + 1 < text.len() && text[e + 1] == b'>') {
                e += 1;
            }
            out.push((s, e));
            i = e + 2;
        } else {
            i += 1;
        }
    }
    out
}

pub fn to_ranges(text: &Text, rs: &[(usize, usize)]) -> Vec<Range> {
    rs.iter().map(|&(s, e)| Range { start_byte: s, end_byte: e, start_point: text.point_of(s), end_point: text.point_of(e) }).collect()
}

/// per-byte hash of the stack of enclosing visible node kinds (root -> leaf)
pub fn stack_sigs(xt: &XTree, len: usize) -> Vec<u64> {
    let mut sig = vec![0xcbf29ce484222325u64; len];
    for n in &xt.nodes {
        let k = (n.kind_id as u64) << 1 | n.named as u64;
        let e = n.end.min(len);
        for s in sig.iter_mut().take(e).skip(n.start.min(e)) {
            *s = (*s ^ (k + 0x9E37)).wrapping_mul(0x100000001b3);
        }
    }
    sig
}

/// known-finding predicate: in `text` (before the edit) the edit starts in the first token after a
/// `mini` pragma (non-terminal extra `@[ident num?]`), separated from it by whitespace only
pub fn edit_follows_pragma(text: &[u8], start: usize) -> bool {
    let mut p = start.min(text.len());
    // up to 3 bytes of the token the edit starts in
    let mut k = 0;
    while p > 0 && k < 3 && !text[p - 1].is_ascii_whitespace() && text[p - 1] != b']' {
        p -= 1;
        k += 1;
    }
    while p > 0 && text[p - 1].is_ascii_whitespace() {
        p -= 1;
    }
    if p == 0 || text[p - 1] != b']' {
        return false;
    }
    // find the matching "@["
    let mut q = p - 1;
    while q > 0 && text[q] != b'[' && p - q < 60 {
        q -= 1;
    }
    if text[q] != b'[' {
        return false;
    }
    let mut r = q;
    while r > 0 && text[r - 1].is_ascii_whitespace() {
        r -= 1;
    }
    r > 0 && text[r - 1] == b'@'
}

/// known-finding predicate: the tree contains a word-token node (e.g. identifier) whose text is one of the
/// grammar's reserved words (a fresh lex would have produced the keyword)
pub fn has_reserved_word_as_word_token(lang: &Lang, xt: &XTree, text: &[u8]) -> bool {
    let word = match lang.grammar["word"].as_str() {
        Some(w) => w,
        None => return false,
    };
    let wid = lang.language.id_for_node_kind(word, true);
    let mut reserved: Vec<String> = vec![];
    fn walk(v: &serde_json::Value, out: &mut Vec<String>) {
        match v {
            serde_json::Value::Object(o) => {
                if o.get("type").and_then(|x| x.as_str()) == Some("STRING") {
                    if let Some(s) = o.get("value").and_then(|x| x.as_str()) {
                        out.push(s.to_string());
                    }
                }
                for (_, x) in o {
                    walk(x, out);
                }
            }
            serde_json::Value::Array(a) => a.iter().for_each(|x| walk(x, out)),
            _ => {}
        }
    }
    walk(&lang.grammar["reserved"], &mut reserved);
    if reserved.is_empty() {
        return false;
    }
    xt.nodes.iter().any(|n| n.kind_id == wid && n.end <= text.len() && reserved.iter().any(|r| r.as_bytes() == &text[n.start..n.end]))
}

pub fn stack_at(xt: &XTree, i: usize, l: &tree_sitter::Language) -> String {
    xt.nodes.iter().filter(|n| n.start <= i && i < n.end).map(|n| format!("{}[{}..{}]", kind_name(l, n.kind_id), n.start, n.end)).collect::<Vec<_>>().join(" > ")
}

pub struct SessionCfg {
    pub max_edits: usize,
}

fn setup_parser(lang: &Lang) -> Parser {
    let mut p = Parser::new();
    p.set_language(&lang.language).expect("set_language");
    p
}

pub fn run_session(ctx: &mut Ctx, t: &mut Tape, mode: Mode) {
    let pfx = if mode == Mode::C01 { "C01" } else { "C04" };
    let mut lname = LANGS[t.weighted(LANG_W)];
    // tmpl documents are parsed as `mini` over their code regions in 60% of the tmpl cases
    let mut ranged = false;
    let doc_lang = lang::zoo(lname);
    if lname == "tmpl" && t.pct(if mode == Mode::C04 { 80 } else { 60 }) {
        ranged = true;
        lname = "mini";
    }
    let lang = lang::zoo(lname);
    let class = if t.pct(80) { DocClass::Sentence } else { DocClass::Mutated };
    let bytes = doc::gen_doc(doc_lang, class, t);
    if bytes.len() > 60_000 {
        ctx.discard("document too large");
        return;
    }
    let mut text = Text::new(bytes);
    let chunk = if t.pct(35) { Chunking::Fixed(*t.pick(&[1usize, 2, 3, 5, 8, 16, 64])) } else { Chunking::Whole };
    ctx.label(format!("lang:{lname}{}", if ranged { "+ranges" } else { "" }));
    ctx.label_if(chunk.is_chunked(), "chunked");
    ctx.label_if(ranged, "with_ranges");
    ctx.label_if(matches!(lname, "indent" | "heredoc"), "external_scanner");
    let mut parser = setup_parser(lang);
    let mut cur_ranges: Option<Vec<Range>> = None;
    if ranged {
        let rs = to_ranges(&text, &tmpl_code_regions(&text.bytes));
        if !rs.is_empty() && parser.set_included_ranges(&rs).is_ok() {
            cur_ranges = Some(rs);
        }
    }
    let budget = |n: usize| Some(drive::termination_budget(n));
    let first_chunk = match &chunk {
        Chunking::Fixed(k) if *k < 4 && text.bytes.iter().any(|b| *b >= 0x80) => Chunking::Fixed(4),
        c => c.clone(),
    };
    let (tree, _) = drive::parse(&mut parser, &text.bytes, None, &first_chunk, budget(text.len()));
    let mut old = match tree {
        Some(tr) => tr,
        None => {
            ctx.discard("initial parse returned no tree");
            return;
        }
    };
    let mut old_had_error = old.root_node().has_error();
    let max_edits = if ctx.tier == Tier::Quick { 8 } else { 20 };
    let n_edits = 1 + t.below(max_edits);
    let mut eg = EditGen::new();
    let mut pending: Vec<String> = vec![];
    let mut pending_labels: Vec<&'static str> = vec![];
    let mut history: Vec<String> = vec![];
    let mut nontrivial = false;
    let mut was_erroneous_since_valid = false;
    let mut parsed_text: Vec<u8> = text.bytes.clone();
    let mut pending_edits: Vec<crate::model::text::Edit> = vec![];
    let mut pending_texts: Vec<Vec<u8>> = vec![];
    for step in 0..n_edits {
        let ge = eg.next(doc_lang, &text, t);
        pending_texts.push(text.bytes.clone());
        let ie = text.apply(&ge.edit);
        old.edit(&ie);
        pending_edits.push(ge.edit.clone());
        pending.push(format!("{}..{} -> {:?}", ge.edit.start, ge.edit.old_end, show_bytes(&ge.edit.inserted, 60)));
        pending_labels.extend(ge.labels.iter().copied());
        let reparse_now = step + 1 == n_edits || t.pct(75);
        if !reparse_now {
            continue;
        }
        // C04: sometimes change the included ranges without regard to the text structure
        let mut ranges_changed = false;
        if ranged {
            let mut regions = tmpl_code_regions(&text.bytes);
            if mode == Mode::C04 && !regions.is_empty() && t.pct(40) {
                match t.below(4) {
                    3 => {
                        // exclude a token-aligned span inside a region (the next parse usually includes it again)
                        let i = t.below(regions.len());
                        let (s, e) = regions[i];
                        let bs: Vec<usize> = crate::gen::edits::boundaries(&text.bytes).into_iter().filter(|b| *b > s && *b < e).collect();
                        if bs.len() >= 2 {
                            let a = t.below(bs.len() - 1);
                            let b = a + 1 + t.below((bs.len() - 1 - a).min(4));
                            regions[i] = (s, bs[a]);
                            regions.insert(i + 1, (bs[b], e));
                        }
                    }
                    0 => {
                        let i = t.below(regions.len());
                        regions.remove(i);
                    }
                    1 => {
                        let i = t.below(regions.len());
                        let (s, e) = regions[i];
                        if e > s + 1 {
                            regions[i] = (s, s + 1 + t.below(e - s - 1));
                        }
                    }
                    _ => {
                        let i = t.below(regions.len());
                        let (s, e) = regions[i];
                        if e > s + 2 {
                            let m = s + 1 + t.below(e - s - 2);
                            regions[i] = (s, m);
                            regions.insert(i + 1, (m + 1, e));
                        }
                    }
                }
                ranges_changed = true;
            }
            let rs = to_ranges(&text, &regions);
            let rs = if rs.is_empty() { vec![Range { start_byte: 0, end_byte: 0, start_point: text.point_of(0), end_point: text.point_of(0) }] } else { rs };
            if parser.set_included_ranges(&rs).is_ok() {
                cur_ranges = Some(rs);
            } else {
                ctx.fail(format!("{pfx}:setter_rejected_ordered_ranges"), format!("{:?}", rs));
                return;
            }
        }
        let old_x = if mode == Mode::C04 { Some(XTree::build(&old)) } else { None };
        let ranges_differ = match &cur_ranges {
            Some(rs) => {
                let o: Vec<(usize, usize)> = old.included_ranges().iter().map(|r| (r.start_byte, r.end_byte)).collect();
                let n: Vec<(usize, usize)> = rs.iter().map(|r| (r.start_byte, r.end_byte)).collect();
                o != n
            }
            None => false,
        };
        // chunks shorter than a character are C09's business (known finding there): keep them whole-character here
        let eff_chunk = match &chunk {
            Chunking::Fixed(k) if *k < 4 && text.bytes.iter().any(|b| *b >= 0x80) => Chunking::Fixed(4),
            c => c.clone(),
        };
        let (inc, _) = drive::parse(&mut parser, &text.bytes, Some(&old), &eff_chunk, budget(text.len()));
        let inc = match inc {
            Some(x) => x,
            None => {
                ctx.fail(format!("{pfx}:no_tree"), format!("re-parse returned no tree; lang={lname} text={:?}", show_bytes(&text.bytes, 300)));
                return;
            }
        };
        ctx.out.inner += 1;
        // set when this re-parse hit an open known finding: the incremental tree is then wrong in a known way, and
        // re-parses that start from it would report the same defect again under signatures that no longer show it
        let mut tainted = false;
        let describe = |extra: &str| -> String {
            if let Ok(d) = std::env::var("VERIF_DUMP") {
                let _ = std::fs::write(format!("{d}/old.txt"), &parsed_text);
                let _ = std::fs::write(format!("{d}/new.txt"), &text.bytes);
                let _ = std::fs::write(format!("{d}/edits.txt"), format!("{:?}", pending_edits));
            }
            format!(
                "lang={lname} chunk={} ranges={:?} step={step}\nhistory(before this re-parse)={:?}\nedits since last parse={:?}\nnew text={:?}\n{extra}",
                chunk.describe(),
                cur_ranges.as_ref().map(|r| r.iter().map(|x| (x.start_byte, x.end_byte)).collect::<Vec<_>>()),
                history,
                pending,
                show_bytes(&text.bytes, 500)
            )
        };
        let inc_x = XTree::build(&inc);
        match mode {
            Mode::C01 => {
                let mut fresh = setup_parser(lang);
                if let Some(rs) = &cur_ranges {
                    let _ = fresh.set_included_ranges(rs);
                }
                let (scr, _) = drive::parse(&mut fresh, &text.bytes, None, &Chunking::Whole, budget(text.len()));
                let scr = match scr {
                    Some(x) => x,
                    None => {
                        ctx.discard("scratch parse returned no tree");
                        return;
                    }
                };
                let scr_x = XTree::build(&scr);
                let scr_err = scr.root_node().has_error() || scr_x.any_error();
                ctx.count_if(!scr_err, "reparse_valid");
                let mut continue_after_known = false;
                let _ = &mut continue_after_known;
                // a token of the correct tree runs from one included range into the next
                let token_spans_gap = cur_ranges
                    .as_ref()
                    .map(|r| r.windows(2).any(|w| w[0].end_byte < w[1].start_byte && scr_x.leaves().any(|n| n.start < w[0].end_byte && n.end > w[1].start_byte)))
                    .unwrap_or(false);
                if !scr_err {
                    ctx.label("reparse:valid");
                    if let Some((i, j, d)) = xtree_diff(&inc_x, &scr_x, EqOpts::FULL) {
                        let kind = kind_name(&lang.language, scr_x.nodes[j].kind_id).to_string();
                        let root_only = {
                            let mut a = inc_x.clone();
                            a.nodes[0].start = scr_x.nodes[0].start;
                            a.nodes[0].end = scr_x.nodes[0].end;
                            a.nodes[0].sp = scr_x.nodes[0].sp;
                            a.nodes[0].ep = scr_x.nodes[0].ep;
                            xtree_diff(&a, &scr_x, EqOpts::FULL).is_none()
                        };
                        let has_empty_range = cur_ranges.as_ref().map(|r| r.iter().any(|x| x.start_byte == x.end_byte)).unwrap_or(false);
                        let after_nt_extra = lname == "mini" && pending_edits.iter().zip(pending_texts.iter()).any(|(e, txt)| edit_follows_pragma(txt, e.start));
                        let ends_only = inc_x.len() == scr_x.len() && {
                            let mut a = inc_x.clone();
                            for (k, n) in a.nodes.iter_mut().enumerate() {
                                n.end = scr_x.nodes[k].end;
                                n.ep = scr_x.nodes[k].ep;
                            }
                            a.nodes[0].start = scr_x.nodes[0].start;
                            a.nodes[0].sp = scr_x.nodes[0].sp;
                            xtree_diff(&a, &scr_x, EqOpts::FULL).is_none()
                        };
                        let sig = if (root_only || ends_only) && has_empty_range {
                            "C01:mismatch:root_extent_with_empty_ranges".to_string()
                        } else if has_reserved_word_as_word_token(lang, &inc_x, &text.bytes) {
                            "C01:mismatch:reserved_word_reused_as_word_token".to_string()
                        } else if lname == "glr" && inc.root_node().has_error() {
                            "C01:mismatch:glr_reuse_leaves_error".to_string()
                        } else if after_nt_extra {
                            "C01:mismatch:edit_right_after_nonterminal_extra".to_string()
                        } else if token_spans_gap && (ranges_changed || ranges_differ) {
                            "C01:mismatch:token_across_changed_included_ranges".to_string()
                        } else {
                            format!("C01:mismatch:{lname}")
                        };
                        if ctx.is_known(&sig) {
                            ctx.fail(sig, "");
                            continue_after_known = true;
                            tainted = true;
                        } else {
                        ctx.fail(
                            sig,
                            describe(&format!(
                                "first difference at incremental node {} / scratch node {} ({kind}): {d}\nincremental={}\nscratch    ={}",
                                inc_x.path_kinds(i, &lang.language),
                                scr_x.path_kinds(j, &lang.language),
                                inc_x.render(&lang.language, 120),
                                scr_x.render(&lang.language, 120)
                            )),
                        );
                        return;
                        }
                    }
                    // non-trivial: reuse really happened
                    let old_ids = XTree::build(&old).ids();
                    let shared = inc_x.nodes.iter().filter(|n| old_ids.contains(&n.id)).count();
                    if shared > 0 {
                        nontrivial = true;
                        ctx.out.inner_hashes.push(fnv(format!("{lname}|{:?}|{:?}", pending, text.bytes).as_bytes()));
                        ctx.label("reparse:valid+reused");
                        ctx.count("reparse_valid_reused");
                        ctx.label_if(was_erroneous_since_valid || old_had_error, "repaired_after_error");
                    }
                    was_erroneous_since_valid = false;
                } else {
                    ctx.label("reparse:erroneous");
                    was_erroneous_since_valid = true;
                    if !inc.root_node().has_error() {
                        let sig = if has_reserved_word_as_word_token(lang, &inc_x, &text.bytes) {
                            "C01:mismatch:reserved_word_reused_as_word_token".to_string()
                        } else if token_spans_gap && (ranges_changed || ranges_differ) {
                            // same defect as in the error-free case: the old token that ended at the range boundary is reused
                            "C01:mismatch:token_across_changed_included_ranges".to_string()
                        } else {
                            format!("C01:error_not_reported:{lname}")
                        };
                        if ctx.is_known(&sig) {
                            ctx.fail(sig, "");
                            tainted = true;
                        } else {
                        ctx.fail(sig, describe(&format!("scratch tree has an error, incremental tree reports none\nincremental={}\nscratch={}", inc_x.render(&lang.language, 120), scr_x.render(&lang.language, 120))));
                        return;
                        }
                    }
                }
            }
            Mode::C04 => {
                let old_x = old_x.unwrap();
                let ranges: Vec<Range> = old.changed_ranges(&inc).collect();
                let len = text.len();
                let doc_end = len.max(old_x.root().end);
                let mut prev_end: Option<usize> = None;
                for (k, r) in ranges.iter().enumerate() {
                    if r.start_byte >= r.end_byte {
                        ctx.fail("C04:range:empty_or_reversed", describe(&format!("range {k} = {}..{}; all={:?}", r.start_byte, r.end_byte, ranges.iter().map(|r| (r.start_byte, r.end_byte)).collect::<Vec<_>>())));
                        return;
                    }
                    if let Some(pe) = prev_end {
                        if r.start_byte < pe {
                            ctx.fail("C04:range:unsorted_or_overlapping", describe(&format!("all={:?}", ranges.iter().map(|r| (r.start_byte, r.end_byte)).collect::<Vec<_>>())));
                            return;
                        }
                    }
                    prev_end = Some(r.end_byte);
                    if r.end_byte > doc_end {
                        ctx.fail("C04:range:outside_document", describe(&format!("range {k} = {}..{} but the document ends at {doc_end}", r.start_byte, r.end_byte)));
                        return;
                    }
                    let sp = text.point_of(r.start_byte);
                    if r.start_byte <= len && (sp.row, sp.column) != (r.start_point.row, r.start_point.column) {
                        ctx.fail("C04:range:start_point", describe(&format!("range {k} starts at byte {} = {:?} by the text, reported {:?}", r.start_byte, sp, r.start_point)));
                        return;
                    }
                }
                if len * 40 <= 4_000_000 {
                    // an included range (of the old or the new parse) that is a single byte, or whose boundary falls
                    // strictly inside a token of either tree: the pathological inputs of two known findings
                    let range_cuts_token = {
                        let mut bounds: Vec<usize> = vec![];
                        let mut tiny = false;
                        for r in old.included_ranges().iter().chain(cur_ranges.iter().flatten()) {
                            if r.end_byte != usize::MAX && r.end_byte > r.start_byte && r.end_byte - r.start_byte <= 1 {
                                tiny = true;
                            }
                            bounds.push(r.start_byte);
                            bounds.push(r.end_byte);
                        }
                        tiny || old_x.leaves().chain(inc_x.leaves()).any(|n| bounds.iter().any(|b| n.start < *b && *b < n.end))
                    };
                    // byte i lies in a token that is the same leaf (kind, extent) in both trees and lies outside the
                    // difference between the old and new included ranges, but touches that difference: only its ancestors
                    // changed (the statement in front of it was excluded or included)
                    let unchanged_leaf_next_to_range_difference = |i: usize| -> bool {
                        let old_r: Vec<(usize, usize)> = old.included_ranges().iter().map(|r| (r.start_byte, r.end_byte)).collect();
                        let new_r: Vec<(usize, usize)> = match &cur_ranges {
                            Some(rs) => rs.iter().map(|r| (r.start_byte, r.end_byte)).collect(),
                            None => vec![(0, usize::MAX)],
                        };
                        let inside = |rs: &Vec<(usize, usize)>, j: usize| rs.iter().any(|(a, b)| *a <= j && j < *b);
                        let diff = |j: usize| inside(&old_r, j) != inside(&new_r, j);
                        let ln = inc_x.leaves().find(|n| n.start <= i && i < n.end);
                        let lo = old_x.leaves().find(|n| n.start <= i && i < n.end);
                        match (ln, lo) {
                            (Some(a), Some(b)) => {
                                a.kind_id == b.kind_id && a.start == b.start && a.end == b.end && !(a.start..a.end).any(|j| diff(j)) && ((a.start > 0 && diff(a.start - 1)) || diff(a.end))
                            }
                            _ => false,
                        }
                    };
                    let so = stack_sigs(&old_x, len);
                    let sn = stack_sigs(&inc_x, len);
                    let mut differing = 0usize;
                    for i in 0..len {
                        if so[i] != sn[i] {
                            differing += 1;
                            let covered = ranges.iter().any(|r| r.start_byte <= i && i < r.end_byte);
                            if !covered {
                                let b = text.bytes[i];
                                let in_error_region = inc_x.nodes.iter().any(|n| n.parent.is_some() && n.start <= i && i < n.end && n.has_error)
                                    && old_x.nodes.iter().any(|n| n.parent.is_some() && n.start <= i && i < n.end && n.has_error);
                                // the blank run around i is exactly the gap between two reported ranges
                                let ws = |x: u8| x == b' ' || x == b'\t' || x == b'\n' || x == b'\r';
                                let gap_between_ranges = ws(b) && {
                                    let mut a = i;
                                    while a > 0 && ws(text.bytes[a - 1]) {
                                        a -= 1;
                                    }
                                    let mut z = i + 1;
                                    while z < len && ws(text.bytes[z]) {
                                        z += 1;
                                    }
                                    ranges.iter().any(|r| r.end_byte == a) && ranges.iter().any(|r| r.start_byte == z)
                                };
                                let cls = if in_error_region {
                                    "erroneous_region"
                                } else if gap_between_ranges {
                                    "blank_gap_between_two_changed_ranges"
                                } else if (b == b'\n' || b == b'\r') && (ranges_changed || ranges_differ) {
                                    "newline_with_changed_included_ranges"
                                } else if b == b'\n' || b == b'\r' {
                                    "newline"
                                } else if (b == b' ' || b == b'\t') && (ranges_changed || ranges_differ) {
                                    "whitespace_next_to_changed_included_range"
                                } else if (b == b' ' || b == b'\t') && old_had_error {
                                    "whitespace_old_tree_erroneous"
                                } else if b == b' ' || b == b'\t' {
                                    "whitespace"
                                } else if (ranges_changed || ranges_differ) && range_cuts_token {
                                    "token_with_changed_included_ranges"
                                } else if (ranges_changed || ranges_differ) && unchanged_leaf_next_to_range_difference(i) {
                                    "unchanged_token_next_to_included_range_difference"
                                } else {
                                    "token"
                                };
                                if ctx.is_known(&format!("C04:uncovered:{cls}")) {
                                    ctx.fail(format!("C04:uncovered:{cls}"), "");
                                    break;
                                }
                                ctx.fail(
                                    format!("C04:uncovered:{cls}"),
                                    describe(&format!(
                                        "byte {i} (0x{b:02x}) has a different stack of enclosing node kinds but lies in no changed range {:?}\nstack in old(edited): {}\nstack in new: {}\nold(edited)={}\nnew        ={}",
                                        ranges.iter().map(|r| (r.start_byte, r.end_byte)).collect::<Vec<_>>(),
                                        stack_at(&old_x, i, &lang.language),
                                        stack_at(&inc_x, i, &lang.language),
                                        old_x.render(&lang.language, 120),
                                        inc_x.render(&lang.language, 120)
                                    )),
                                );
                                return;
                            }
                        }
                    }
                    if differing > 0 && !ranges.is_empty() {
                        nontrivial = true;
                        ctx.out.inner_hashes.push(fnv(format!("{lname}|{:?}|{:?}", pending, text.bytes).as_bytes()));
                        ctx.label("stacks_differ");
                    }
                    ctx.label_if(ranges_changed, "ranges_changed");
                    ctx.label_if(old_had_error, "old_tree_erroneous");
                }
            }
        }
        for l in pending_labels.drain(..) {
            ctx.label(l);
        }
        ctx.label_if(pending.len() >= 2, "multi_edit_before_reparse");
        ctx.label_if(text.bytes.iter().any(|b| *b >= 0x80), "multibyte_text");
        history.append(&mut pending);
        parsed_text = text.bytes.clone();
        pending_edits.clear();
        pending_texts.clear();
        old_had_error = inc.root_node().has_error();
        if tainted {
            ctx.label("session:ended_after_known_finding");
            break;
        }
        old = inc;
    }
    ctx.out.nontrivial = nontrivial;
    ctx.out.hash = fnv(format!("{lname}|{:?}|{:?}", history, text.bytes).as_bytes());
    if ctx.want_sample {
        ctx.out.sample = json!({"lang": lname, "doc_lang": doc_lang.name, "with_ranges": ranged, "chunking": chunk.describe(), "edits": history, "final_text": show_bytes(&text.bytes, 200)});
    }
}

pub struct C01;
impl Check for C01 {
    fn id(&self) -> &'static str {
        "C01"
    }
    fn rule(&self) -> String {
        "case = zoo language (LR, GLR with declared conflicts, keyword extraction, external scanners with serialized state, column-sensitive scanner; tmpl documents parsed as mini over their code regions = included ranges) x document (sentence 80% / mutated 20%) x chunking x edit history of 1-8 (quick) / 1-20 (thorough) edits (position classes: boundary, inside token, look-ahead window, whitespace, BOF, EOF, inside multi-byte char, line start; inserted text: literal, grammar fragment, whitespace, random bytes, word, copy, undo of earlier edits; several edits may accumulate before a re-parse). Each edit is mirrored with Tree::edit using an InputEdit computed from the text model; evaluations = compared re-parses: the incremental tree must equal (kinds, nesting, fields, byte+point ranges, named/extra/missing) the tree a fresh parser builds from scratch when that one is error-free, else must report an error. Non-trivial: scratch tree error-free, edit non-empty and the incremental tree shares >= 1 node id with the edited old tree; distinct by hash(language, edits, new text).".into()
    }
    fn cases(&self, tier: Tier) -> u64 {
        match tier {
            Tier::Quick => 60_000,
            Tier::Thorough => 1_000_000,
        }
    }
    fn tape_len(&self) -> usize {
        4096
    }
    fn langs(&self) -> Vec<&'static str> {
        LANGS.to_vec()
    }
    fn floors(&self) -> Vec<(&'static str, f64)> {
        vec![("pos:inside_token", 0.10), ("pos:lookahead", 0.05), ("repaired_after_error", 0.08), ("external_scanner", 0.20), ("multi_edit_before_reparse", 0.10), ("multibyte_text", 0.05), ("with_ranges", 0.03), ("chunked", 0.20), ("#reparse_valid", 0.15)]
    }
    fn run_case(&self, ctx: &mut Ctx, t: &mut Tape) {
        run_session(ctx, t, Mode::C01)
    }
}

pub struct C04;
impl Check for C04 {
    fn id(&self) -> &'static str {
        "C04"
    }
    fn rule(&self) -> String {
        "case = the edit sessions of C01 (same generators), with 80% of tmpl documents parsed as mini over their code regions and the region list additionally perturbed (region dropped / shrunk / split) between consecutive parses in 40% of those re-parses. evaluations = re-parses; for each, old_edited.changed_ranges(new) must be sorted, disjoint, non-empty ranges inside the document with start points that agree with the text, and every byte whose stack of enclosing visible node kinds (computed from two explicit trees) differs must lie in a reported range - no exemption for newline bytes. Non-trivial: stacks differ at >= 1 byte and ranges are reported; distinct by hash(language, edits, new text).".into()
    }
    fn cases(&self, tier: Tier) -> u64 {
        match tier {
            Tier::Quick => 60_000,
            Tier::Thorough => 1_000_000,
        }
    }
    fn langs(&self) -> Vec<&'static str> {
        LANGS.to_vec()
    }
    fn floors(&self) -> Vec<(&'static str, f64)> {
        vec![("ranges_changed", 0.02), ("old_tree_erroneous", 0.15), ("stacks_differ", 0.5)]
    }
    fn run_case(&self, ctx: &mut Ctx, t: &mut Tape) {
        run_session(ctx, t, Mode::C04)
    }
}
