//! C14: the generated lexer implements the documented token disambiguation rules.
use crate::core::{Check, Ctx, Tier};
use crate::lang;
use crate::model::xtree::{kind_name, XTree};
use crate::tape::{fnv, Tape};
use serde_json::{json, Value};
use std::collections::BTreeSet;
use tree_sitter::Parser;
use tree_sitter_generate::OptLevel;

pub struct C14;

#[derive(Clone, Debug)]
pub enum Re {
    Lit(char),
    /// explicit set of characters / ranges, possibly negated
    Class { items: Vec<(char, char)>, negated: bool },
    /// \d \w \p{L} \p{Lu} \p{Nd}
    Esc(&'static str),
    Seq(Vec<Re>),
    Alt(Vec<Re>),
    Star(Box<Re>),
    Plus(Box<Re>),
    Opt(Box<Re>),
    Count(Box<Re>, u32, u32),
}

fn esc_lit(c: char, out: &mut String) {
    match c {
        '\n' => return out.push_str("\\n"),
        '\t' => return out.push_str("\\t"),
        '\r' => return out.push_str("\\r"),
        _ => {}
    }
    if "\\.+*?()[]{}|^$-/".contains(c) {
        out.push('\\');
    }
    out.push(c);
}

impl Re {
    pub fn render(&self, out: &mut String, top: bool) {
        match self {
            Re::Lit(c) => esc_lit(*c, out),
            Re::Class { items, negated } => {
                out.push('[');
                if *negated {
                    out.push('^');
                }
                for (a, b) in items {
                    esc_lit(*a, out);
                    if a != b {
                        out.push('-');
                        esc_lit(*b, out);
                    }
                }
                out.push(']');
            }
            Re::Esc(e) => out.push_str(e),
            Re::Seq(v) => {
                for x in v {
                    x.render(out, false);
                }
            }
            Re::Alt(v) => {
                if !top {
                    out.push('(');
                }
                for (i, x) in v.iter().enumerate() {
                    if i > 0 {
                        out.push('|');
                    }
                    x.render(out, false);
                }
                if !top {
                    out.push(')');
                }
            }
            Re::Star(x) | Re::Plus(x) | Re::Opt(x) | Re::Count(x, _, _) => {
                let atom = matches!(**x, Re::Lit(_) | Re::Class { .. } | Re::Esc(_));
                if !atom {
                    out.push('(');
                }
                x.render(out, false);
                if !atom {
                    out.push(')');
                }
                match self {
                    Re::Star(_) => out.push('*'),
                    Re::Plus(_) => out.push('+'),
                    Re::Opt(_) => out.push('?'),
                    Re::Count(_, m, n) => out.push_str(&format!("{{{m},{n}}}")),
                    _ => {}
                }
            }
        }
    }
    fn nullable(&self) -> bool {
        match self {
            Re::Lit(_) | Re::Class { .. } | Re::Esc(_) => false,
            Re::Seq(v) => v.iter().all(|x| x.nullable()),
            Re::Alt(v) => v.iter().any(|x| x.nullable()),
            Re::Star(_) | Re::Opt(_) => true,
            Re::Plus(x) => x.nullable(),
            Re::Count(x, m, _) => *m == 0 || x.nullable(),
        }
    }
}

fn esc_matches(e: &str, c: char) -> bool {
    use std::sync::OnceLock;
    static L: OnceLock<regex::Regex> = OnceLock::new();
    static LU: OnceLock<regex::Regex> = OnceLock::new();
    static ND: OnceLock<regex::Regex> = OnceLock::new();
    let s = c.to_string();
    match e {
        "\\d" => c.is_ascii_digit(),
        "\\w" => c.is_ascii_alphanumeric() || c == '_',
        "\\p{L}" => L.get_or_init(|| regex::Regex::new(r"^\p{L}$").unwrap()).is_match(&s),
        "\\p{Lu}" => LU.get_or_init(|| regex::Regex::new(r"^\p{Lu}$").unwrap()).is_match(&s),
        "\\p{Nd}" => ND.get_or_init(|| regex::Regex::new(r"^\p{Nd}$").unwrap()).is_match(&s),
        _ => false,
    }
}

/// all end positions of matches of `r` starting at `pos` (own simulation over the regex AST)
/// Set of positions q such that inp[pos..q] is a prefix of some word of L(r) (every sub-expression of the generated
/// ASTs has a non-empty language, so a partial match can always be completed).
pub fn viable(r: &Re, inp: &[char], pos: usize) -> BTreeSet<usize> {
    let mut out: BTreeSet<usize> = [pos].into_iter().collect();
    match r {
        Re::Lit(_) | Re::Class { .. } | Re::Esc(_) => out.extend(ends(r, inp, pos)),
        Re::Seq(v) => {
            let mut cur: BTreeSet<usize> = [pos].into_iter().collect();
            for x in v {
                let mut next = BTreeSet::new();
                for p in &cur {
                    out.extend(viable(x, inp, *p));
                    next.extend(ends(x, inp, *p));
                }
                cur = next;
                if cur.is_empty() {
                    break;
                }
            }
        }
        Re::Alt(v) => {
            for x in v {
                out.extend(viable(x, inp, pos));
            }
        }
        Re::Star(x) | Re::Plus(x) => {
            let mut starts = ends(&Re::Star(x.clone()), inp, pos);
            starts.insert(pos);
            for b in starts {
                out.extend(viable(x, inp, b));
            }
        }
        Re::Opt(x) => out.extend(viable(x, inp, pos)),
        Re::Count(x, _m, n) => {
            let mut cur: BTreeSet<usize> = [pos].into_iter().collect();
            for _ in 0..*n {
                let mut next = BTreeSet::new();
                for p in &cur {
                    out.extend(viable(x, inp, *p));
                    next.extend(ends(x, inp, *p));
                }
                if next.is_subset(&cur) && next.len() == cur.len() {
                    break;
                }
                cur = next;
                if cur.is_empty() {
                    break;
                }
            }
        }
    }
    out
}

pub fn ends(r: &Re, inp: &[char], pos: usize) -> BTreeSet<usize> {
    let mut out = BTreeSet::new();
    match r {
        Re::Lit(c) => {
            if inp.get(pos) == Some(c) {
                out.insert(pos + 1);
            }
        }
        Re::Class { items, negated } => {
            if let Some(&c) = inp.get(pos) {
                let m = items.iter().any(|(a, b)| *a <= c && c <= *b);
                if m != *negated {
                    out.insert(pos + 1);
                }
            }
        }
        Re::Esc(e) => {
            if let Some(&c) = inp.get(pos) {
                if esc_matches(e, c) {
                    out.insert(pos + 1);
                }
            }
        }
        Re::Seq(v) => {
            let mut cur: BTreeSet<usize> = [pos].into_iter().collect();
            for x in v {
                let mut next = BTreeSet::new();
                for p in &cur {
                    next.extend(ends(x, inp, *p));
                }
                cur = next;
                if cur.is_empty() {
                    break;
                }
            }
            out = cur;
        }
        Re::Alt(v) => {
            for x in v {
                out.extend(ends(x, inp, pos));
            }
        }
        Re::Star(x) | Re::Plus(x) => {
            let mut reach: BTreeSet<usize> = BTreeSet::new();
            let mut frontier: BTreeSet<usize> = [pos].into_iter().collect();
            while !frontier.is_empty() {
                let mut next = BTreeSet::new();
                for p in &frontier {
                    for e in ends(x, inp, *p) {
                        if e > *p && reach.insert(e) {
                            next.insert(e);
                        }
                    }
                }
                frontier = next;
            }
            out = reach;
            // zero iterations (star), or one iteration of a body that matches the empty string (plus)
            if matches!(r, Re::Star(_)) || ends(x, inp, pos).contains(&pos) {
                out.insert(pos);
            }
        }
        Re::Opt(x) => {
            out = ends(x, inp, pos);
            out.insert(pos);
        }
        Re::Count(x, m, n) => {
            let mut cur: BTreeSet<usize> = [pos].into_iter().collect();
            for k in 0..*n {
                if k >= *m {
                    out.extend(cur.iter().copied());
                }
                let mut next = BTreeSet::new();
                for p in &cur {
                    next.extend(ends(x, inp, *p));
                }
                cur = next;
                if cur.is_empty() {
                    break;
                }
            }
            out.extend(cur.iter().copied());
            if *m == 0 {
                out.insert(pos);
            }
        }
    }
    out
}

#[derive(Clone, Debug)]
pub enum TokDef {
    Str(String),
    Pat(Re),
}
#[derive(Clone, Debug)]
pub struct Tok {
    pub name: String,
    pub def: TokDef,
    pub prec: i32,
}

const ALPHA: &[char] = &['a', 'b', 'c', '0', '1', '=', '<', '-'];
const UNI: &[char] = &['é', 'λ', 'ß', 'Ω'];

fn gen_re(t: &mut Tape, depth: u32, alpha: &[char], unicode: bool) -> Re {
    let k = if depth >= 3 { t.below(3) } else { t.weighted(&[28, 14, 6, 16, 12, 8, 8, 4, 4]) };
    match k {
        0 => Re::Lit(*t.pick(alpha)),
        1 => {
            let n = 1 + t.below(3);
            let mut items: Vec<(char, char)> = (0..n).map(|_| { let c = *t.pick(alpha); (c, c) }).collect();
            if t.pct(30) {
                items.push(('a', 'c'));
            }
            let negated = t.pct(15);
            if negated {
                // a negated class would also match the whitespace that the extras skip: exclude it
                items.push((' ', ' '));
                items.push(('\n', '\n'));
                items.push(('\t', '\t'));
                items.push(('\r', '\r'));
            }
            Re::Class { items, negated }
        }
        2 => {
            if unicode {
                Re::Esc(*t.pick(&["\\p{L}", "\\p{Lu}", "\\p{Nd}", "\\d", "\\w"]))
            } else {
                Re::Esc(*t.pick(&["\\d", "\\w"]))
            }
        }
        3 => Re::Seq((0..2 + t.below(2)).map(|_| gen_re(t, depth + 1, alpha, unicode)).collect()),
        4 => Re::Alt((0..2 + t.below(2)).map(|_| gen_re(t, depth + 1, alpha, unicode)).collect()),
        5 => Re::Star(Box::new(gen_re(t, depth + 1, alpha, unicode))),
        6 => Re::Plus(Box::new(gen_re(t, depth + 1, alpha, unicode))),
        7 => Re::Opt(Box::new(gen_re(t, depth + 1, alpha, unicode))),
        _ => {
            let m = t.below(3) as u32;
            Re::Count(Box::new(gen_re(t, depth + 1, alpha, unicode)), m, m + 1 + t.below(2) as u32)
        }
    }
}

impl Check for C14 {
    fn id(&self) -> &'static str {
        "C14"
    }
    fn rule(&self) -> String {
        "case = a random token set of 2-8 tokens over the alphabet {a,b,c,0,1,=,<,-} (plus é λ ß Ω when Unicode classes are used): string literals and regex ASTs (literal, class, negated class, \\d \\w, \\p{L} \\p{Lu} \\p{Nd}, concatenation, alternation, * + ?, {m,n}), never nullable, overlapping prefixes forced in most sets; 50% with token(prec(p, ..)), p in {-1,0,1,2}; 25% with a word token and 1-3 keywords (no precedences there). Grammar = token soup source: repeat(choice(t1..tn)) with extras [\\s], so every token is valid in the single state. Inputs: EVERY string up to the largest length with <= 6000 strings over the set's alphabet + space, and 200 random strings <= 30. Oracle: own tokenizer working on the regex AST I generated (own match simulation; Unicode class membership from the regex crate on single characters): skip whitespace, collect (token, length > 0) matches, choose by the documented order - higher lexical precedence, then longest match, then string literal over pattern, then earlier in the grammar; a keyword only when the word token's whole match equals it. If every position yields a token the tree must be error-free with exactly that leaf sequence (kind, start, end); otherwise it must contain an error. evaluations = strings judged. Context mode (22% of the cases): grammar source: choice(seq(prefix_i, choice(subset_i))) with 2-6 contexts over a pool of 2-3 (pattern P, literal L in L(P)) pairs and filler literals, each context holding none / only P / only L / both of every pair and a varying number of fillers; inputs = prefix_i followed (with and without a blank) by every string up to length 3 over {a,b,c,d,1} and every concatenation of two pool words; the documented order is applied to the tokens VALID in that context (literal over pattern, then rule order): the tree must be (source prefix token) with exactly that token, or contain an error when no valid token matches the whole rest. Non-trivial: set with >= 1 pair of tokens matching a common string, input with >= 2 tokens (context mode: an input that a token outside the context matches too); distinct by hash(grammar, string).".into()
    }
    fn cases(&self, tier: Tier) -> u64 {
        match tier {
            Tier::Quick => 1500,
            Tier::Thorough => 15000,
        }
    }
    fn langs(&self) -> Vec<&'static str> {
        vec![]
    }
    fn floors(&self) -> Vec<(&'static str, f64)> {
        vec![("set:precedence", 0.18), ("set:keywords", 0.10), ("set:unicode", 0.07), ("grammar:accepted", 0.6), ("set:overlapping", 0.38), ("set:contexts", 0.15), ("contexts:contested", 0.10)]
    }
    fn watchdog_s(&self) -> u64 {
        300
    }
    fn run_case(&self, ctx: &mut Ctx, t: &mut Tape) {
        if t.pct(22) {
            return context_case(ctx, t);
        }
        let keywords = t.pct(25);
        let unicode = !keywords && t.pct(22);
        let with_prec = !keywords && t.pct(55);
        let mut alpha: Vec<char> = ALPHA.to_vec();
        if unicode {
            alpha.extend_from_slice(UNI);
        }
        let n_tok = 2 + t.below(7);
        let mut toks: Vec<Tok> = vec![];
        let mut kw: Vec<String> = vec![];
        if keywords {
            // word token over letters, keywords inside its language
            toks.push(Tok { name: "w".into(), def: TokDef::Pat(Re::Plus(Box::new(Re::Class { items: vec![('a', 'c')], negated: false }))), prec: 0 });
            let n = 1 + t.below(3);
            for _ in 0..n {
                let len = 1 + t.below(3);
                let s: String = (0..len).map(|_| *t.pick(&['a', 'b', 'c'])).collect();
                if !kw.contains(&s) {
                    kw.push(s);
                }
            }
        }
        while toks.len() < n_tok {
            let k = toks.len();
            let def = if t.pct(35) {
                let len = 1 + t.below(3);
                // literals outside the word alphabet in keyword sets (else they would be keywords)
                let a: Vec<char> = if keywords { alpha.iter().copied().filter(|c| !"abc".contains(*c)).collect() } else { alpha.clone() };
                TokDef::Str((0..len).map(|_| *t.pick(&a)).collect())
            } else {
                let a: Vec<char> = if keywords { alpha.iter().copied().filter(|c| !"abc".contains(*c)).collect() } else { alpha.clone() };
                let mut r = gen_re(t, 0, &a, unicode);
                // overlapping prefixes: start with the first character another token starts with
                if t.pct(60) && !toks.is_empty() {
                    r = Re::Seq(vec![Re::Lit(*t.pick(&a[..3.min(a.len())])), Re::Opt(Box::new(r))]);
                }
                if r.nullable() {
                    r = Re::Seq(vec![Re::Lit(*t.pick(&a)), r]);
                }
                TokDef::Pat(r)
            };
            let prec = if with_prec && t.pct(60) { *t.pick(&[-1, 0, 1, 2]) } else { 0 };
            toks.push(Tok { name: format!("t{k}"), def, prec });
        }
        // duplicate literals would be one token for the generator: drop duplicates
        let mut seen_str: Vec<String> = vec![];
        toks.retain(|tk| match &tk.def {
            TokDef::Str(s) => {
                if seen_str.contains(s) {
                    false
                } else {
                    seen_str.push(s.clone());
                    true
                }
            }
            _ => true,
        });
        ctx.label_if(with_prec && toks.iter().any(|x| x.prec != 0), "set:precedence");
        ctx.label_if(keywords, "set:keywords");
        ctx.label_if(unicode, "set:unicode");
        // grammar JSON
        let mut rules = serde_json::Map::new();
        let mut members: Vec<Value> = toks.iter().map(|x| json!({"type": "SYMBOL", "name": x.name})).collect();
        for k in &kw {
            members.push(json!({"type": "STRING", "value": k}));
        }
        rules.insert("source".into(), json!({"type": "REPEAT", "content": {"type": "CHOICE", "members": members}}));
        for x in &toks {
            let inner = match &x.def {
                TokDef::Str(s) => json!({"type": "STRING", "value": s}),
                TokDef::Pat(r) => {
                    let mut s = String::new();
                    r.render(&mut s, true);
                    json!({"type": "PATTERN", "value": s})
                }
            };
            let body = if x.prec != 0 || (with_prec && x.name != "w") { json!({"type": "TOKEN", "content": {"type": "PREC", "value": x.prec, "content": inner}}) } else { inner };
            rules.insert(x.name.clone(), body);
        }
        let name = format!("lx{}", t.u16());
        let mut g = json!({"name": name, "rules": Value::Object(rules), "extras": [{"type": "PATTERN", "value": "\\s"}], "conflicts": [], "precedences": [], "externals": [], "inline": [], "supertypes": []});
        if keywords {
            g["word"] = json!("w");
        }
        let gtext = serde_json::to_string_pretty(&g).unwrap();
        let tl = match lang::temp_lang(&gtext, OptLevel::default()) {
            Ok(l) => l,
            Err(e) => {
                ctx.label("grammar:rejected");
                ctx.label(format!("rejected:{}", e.lines().next().unwrap_or("").chars().take(36).collect::<String>()));
                return;
            }
        };
        ctx.label("grammar:accepted");
        let l = &tl.language;
        let mut parser = Parser::new();
        parser.set_language(l).unwrap();
        // inputs
        let mut sigma: Vec<char> = alpha.clone();
        sigma.push(' ');
        let mut inputs: Vec<Vec<char>> = vec![vec![]];
        {
            let mut layer: Vec<Vec<char>> = vec![vec![]];
            for _ in 0..7 {
                if layer.len() * sigma.len() + inputs.len() > 6000 {
                    break;
                }
                let mut next = vec![];
                for s in &layer {
                    for c in &sigma {
                        let mut x = s.clone();
                        x.push(*c);
                        next.push(x);
                    }
                }
                inputs.extend(next.iter().cloned());
                layer = next;
            }
        }
        for _ in 0..200 {
            let n = 1 + t.below(30);
            inputs.push((0..n).map(|_| *t.pick(&sigma)).collect());
        }
        let describe_tokens = || -> String {
            let mut s = String::new();
            for x in &toks {
                let d = match &x.def {
                    TokDef::Str(v) => format!("'{v}'"),
                    TokDef::Pat(r) => {
                        let mut p = String::new();
                        r.render(&mut p, true);
                        format!("/{p}/")
                    }
                };
                s.push_str(&format!("{}={}{} ", x.name, d, if x.prec != 0 { format!(" prec {}", x.prec) } else { String::new() }));
            }
            if !kw.is_empty() {
                s.push_str(&format!("keywords={:?} word=w", kw));
            }
            s
        };
        let mut overlapping = false;
        for inp in &inputs {
            // reference tokenization, in the documented order (Docs) or as the lexing automaton is built (Automaton:
            // longest match, where a transition out of an accepting state is only followed if some token still alive
            // after it has at least the precedence of the completed one)
            let tokenize = |automaton: bool, overlapping: &mut bool| -> (Vec<(String, bool, usize, usize)>, bool, usize) {
                let mut pos = 0usize;
                let mut expect: Vec<(String, bool, usize, usize)> = vec![]; // kind, named, start char, end char
                while pos < inp.len() {
                    if inp[pos].is_whitespace() {
                        pos += 1;
                        continue;
                    }
                    // per token: set of match ends and set of viable-prefix ends
                    let mut per: Vec<(BTreeSet<usize>, BTreeSet<usize>)> = vec![];
                    for x in toks.iter() {
                        per.push(match &x.def {
                            TokDef::Str(s) => {
                                let cs: Vec<char> = s.chars().collect();
                                let common = cs.iter().zip(inp[pos..].iter()).take_while(|(a, b)| a == b).count();
                                let e: BTreeSet<usize> = if common == cs.len() { [pos + cs.len()].into_iter().collect() } else { BTreeSet::new() };
                                (e, (pos..=pos + common).collect())
                            }
                            TokDef::Pat(r) => (ends(r, inp, pos), if automaton { viable(r, inp, pos) } else { BTreeSet::new() }),
                        });
                    }
                    let key = |k: usize, len: usize| (toks[k].prec, len, matches!(toks[k].def, TokDef::Str(_)), -(k as i64));
                    let n_matching = per.iter().filter(|(e, _)| e.iter().any(|e| *e > pos)).count();
                    if n_matching >= 2 {
                        *overlapping = true;
                    }
                    let mut best: Option<(usize, usize)> = None; // token, len
                    if !automaton {
                        for (k, (e, _)) in per.iter().enumerate() {
                            if let Some(&e) = e.iter().filter(|e| **e > pos).max() {
                                if best.map(|b| key(k, e - pos) > key(b.0, b.1)).unwrap_or(true) {
                                    best = Some((k, e - pos));
                                }
                            }
                        }
                    } else {
                        let mut j = 0usize;
                        loop {
                            let mut completed: Option<usize> = None;
                            if j > 0 {
                                for (k, (e, _)) in per.iter().enumerate() {
                                    if e.contains(&(pos + j)) && completed.map(|c| key(k, j) > key(c, j)).unwrap_or(true) {
                                        completed = Some(k);
                                    }
                                }
                            }
                            if let Some(k) = completed {
                                best = Some((k, j));
                            }
                            if pos + j >= inp.len() {
                                break;
                            }
                            let alive_prec = per.iter().enumerate().filter(|(_, (_, v))| v.contains(&(pos + j + 1))).map(|(k, _)| toks[k].prec).max();
                            match (alive_prec, completed) {
                                (None, _) => break,
                                (Some(tp), Some(c)) if tp < toks[c].prec => break,
                                _ => {}
                            }
                            j += 1;
                        }
                    }
                    match best {
                        None => return (expect, false, pos),
                        Some((k, len)) => {
                            let text: String = inp[pos..pos + len].iter().collect();
                            if keywords && toks[k].name == "w" && kw.contains(&text) {
                                expect.push((text, false, pos, pos + len));
                            } else {
                                expect.push((toks[k].name.clone(), true, pos, pos + len));
                            }
                            pos += len;
                        }
                    }
                }
                (expect, true, pos)
            };
            let (expect, ok, pos) = tokenize(false, &mut overlapping);
            let text: String = inp.iter().collect();
            // char index -> byte offset
            let mut off: Vec<usize> = Vec::with_capacity(inp.len() + 1);
            let mut b = 0;
            for c in inp {
                off.push(b);
                b += c.len_utf8();
            }
            off.push(b);
            let tree = parser.parse(&text, None).unwrap();
            ctx.out.inner += 1;
            let xt = XTree::build(&tree);
            let has_err = tree.root_node().has_error() || xt.any_error();
            if expect.len() >= 2 {
                ctx.out.inner_hashes.push(fnv(format!("{gtext}|{text}").as_bytes()));
            }
            let got: Vec<(String, bool, usize, usize)> = xt.leaves().filter(|n| n.end > n.start || !xt.nodes[0].children.is_empty()).filter(|n| n.parent.is_some()).map(|n| (kind_name(l, n.kind_id).to_string(), n.named, n.start, n.end)).collect();
            let agrees = |e: &(Vec<(String, bool, usize, usize)>, bool, usize)| -> bool {
                if !e.1 {
                    return has_err;
                }
                !has_err && got == e.0.iter().map(|x| (x.0.clone(), x.1, off[x.2], off[x.3])).collect::<Vec<_>>()
            };
            let any_prec = toks.iter().any(|x| x.prec != 0);
            if any_prec {
                if agrees(&(expect.clone(), ok, pos)) {
                    continue;
                }
                // With explicit precedences the lexer deviates from the documented order (known finding): precedence is
                // only applied when leaving an accepting state, so a longer match of a lower-precedence token wins when
                // the automaton can run on through a transition shared with a token of sufficient precedence.
                let mut dummy = false;
                let auto = tokenize(true, &mut dummy);
                let show = |e: &(Vec<(String, bool, usize, usize)>, bool, usize)| format!("{}{:?}", if e.1 { "" } else { "ERROR after " }, e.0.iter().map(|x| format!("{}[{}..{}]", x.0, off[x.2], off[x.3])).collect::<Vec<_>>());
                let got_s = format!("{}{:?}", if has_err { "(with errors) " } else { "" }, got.iter().map(|x| format!("{}[{}..{}]", x.0, x.2, x.3)).collect::<Vec<_>>());
                if agrees(&auto) {
                    ctx.fail("C14:precedence:longer_match_beats_higher_precedence", format!("input {text:?}: lexer produced {got_s}; the documented order (precedence before length) gives {}\ntokens: {}", show(&(expect.clone(), ok, pos)), describe_tokens()));
                    continue;
                }
                ctx.fail("C14:precedence:neither_documented_nor_automaton_order", format!("input {text:?}: lexer produced {got_s}; the documented order gives {}; longest-match-with-pruning gives {}\ntokens: {}", show(&(expect.clone(), ok, pos)), show(&auto), describe_tokens()));
                return;
            }
            if !ok {
                if !has_err {
                    ctx.fail("C14:accepts_untokenizable", format!("no token matches at character {pos} of {text:?}, but the tree has no error: {}\ntokens: {}", xt.render(l, 40), describe_tokens()));
                    return;
                }
                continue;
            }
            if has_err {
                ctx.fail("C14:rejects_tokenizable", format!("reference tokenization {:?} succeeds for {text:?} but the tree has an error: {}\ntokens: {}", expect.iter().map(|e| format!("{}[{}..{}]", e.0, e.2, e.3)).collect::<Vec<_>>(), xt.render(l, 40), describe_tokens()));
                return;
            }
            let want: Vec<(String, bool, usize, usize)> = expect.iter().map(|e| (e.0.clone(), e.1, off[e.2], off[e.3])).collect();
            if got != want {
                let with_p = toks.iter().any(|x| x.prec != 0);
                let sig = if with_p { "C14:token_choice_differs:with_precedence" } else if keywords { "C14:token_choice_differs:keywords" } else { "C14:token_choice_differs" };
                ctx.fail(sig, format!("input {text:?}: lexer produced {:?}, the documented rules give {:?}\ntokens: {}", got.iter().map(|e| format!("{}[{}..{}]", e.0, e.2, e.3)).collect::<Vec<_>>(), want.iter().map(|e| format!("{}[{}..{}]", e.0, e.2, e.3)).collect::<Vec<_>>(), describe_tokens()));
                return;
            }
        }
        ctx.label_if(overlapping, "set:overlapping");
        ctx.out.nontrivial = overlapping;
        ctx.out.hash = fnv(gtext.as_bytes());
        if ctx.want_sample {
            ctx.out.sample = json!({"tokens": describe_tokens(), "inputs": inputs.len()});
        }
    }
}

/// Context-dependent lexing: the documented rules choose among the tokens that are VALID at the position. Grammar =
/// source: choice(seq(prefix_i, choice(subset_i))) over a pool of tokens built from pairs (pattern P_j, literal L_j with
/// L_j in L(P_j)) plus fillers; each context holds, per pair, none / only P / only L / both. Lex states of different
/// parse states may be shared by the generator only if that changes no result.
fn context_case(ctx: &mut Ctx, t: &mut Tape) {
    ctx.label("set:contexts");
    let words: [&str; 8] = ["ab", "cd", "ba", "aa", "abc", "b", "cb", "a"];
    let n_pairs = 2 + t.below(2);
    let mut toks: Vec<Tok> = vec![];
    let mut pairs: Vec<(usize, usize)> = vec![]; // (pattern token, literal token)
    let lit_re = |w: &str| Re::Seq(w.chars().map(Re::Lit).collect());
    let mut order: Vec<Tok> = vec![];
    for j in 0..n_pairs {
        let w1 = words[(t.below(words.len()) + j) % words.len()];
        let w2 = words[(t.below(words.len()) + j + 3) % words.len()];
        let pat = match t.weighted(&[60, 20, 20]) {
            0 => Re::Alt(vec![lit_re(w1), lit_re(w2)]),
            1 => Re::Plus(Box::new(Re::Class { items: vec![('a', 'c')], negated: false })),
            _ => Re::Seq(vec![lit_re(w1), Re::Opt(Box::new(lit_re(w2)))]),
        };
        order.push(Tok { name: format!("p{j}"), def: TokDef::Pat(pat), prec: 0 });
        order.push(Tok { name: format!("l{j}"), def: TokDef::Str(w1.to_string()), prec: 0 });
    }
    for f in 0..1 + t.below(3) {
        order.push(Tok { name: format!("f{f}"), def: TokDef::Str(["1", "2", "3"][f].to_string()), prec: 0 });
    }
    // literals with the same text are one token for the generator: keep the first
    let mut seen: Vec<String> = vec![];
    order.retain(|x| match &x.def {
        TokDef::Str(v) => {
            if seen.contains(v) {
                false
            } else {
                seen.push(v.clone());
                true
            }
        }
        _ => true,
    });
    // the order of the token rules is the documented last tie-break: vary it
    if t.pct(50) {
        order.reverse();
    }
    for x in order {
        toks.push(x);
    }
    for j in 0..n_pairs {
        let p = toks.iter().position(|x| x.name == format!("p{j}"));
        let l = toks.iter().position(|x| x.name == format!("l{j}"));
        if let (Some(p), Some(l)) = (p, l) {
            pairs.push((p, l));
        }
    }
    let fillers: Vec<usize> = (0..toks.len()).filter(|&k| toks[k].name.starts_with('f')).collect();
    let prefixes = ["v", "w", "x", "y", "z", "u"];
    let n_ctx = 2 + t.weighted(&[10, 25, 30, 25, 10]);
    let mut subsets: Vec<Vec<usize>> = vec![];
    for _ in 0..n_ctx {
        let mut sub: Vec<usize> = vec![];
        for &(p, l) in &pairs {
            match t.weighted(&[20, 30, 30, 20]) {
                0 => {}
                1 => sub.push(p),
                2 => sub.push(l),
                _ => {
                    sub.push(p);
                    sub.push(l);
                }
            }
        }
        // fillers vary the size of the parse state (the generator assigns lex states in order of size)
        let nf = t.below(fillers.len() + 1);
        sub.extend(fillers.iter().take(nf));
        if sub.is_empty() {
            sub.push(pairs[0].0);
        }
        sub.sort();
        sub.dedup();
        subsets.push(sub);
    }
    let mut rules = serde_json::Map::new();
    let members: Vec<Value> = subsets.iter().enumerate().map(|(i, sub)| json!({"type": "SEQ", "members": [{"type": "STRING", "value": prefixes[i]}, {"type": "CHOICE", "members": sub.iter().map(|&k| json!({"type": "SYMBOL", "name": toks[k].name})).collect::<Vec<_>>()}]})).collect();
    rules.insert("source".into(), json!({"type": "CHOICE", "members": members}));
    for x in &toks {
        if !subsets.iter().any(|sub| sub.iter().any(|&k| toks[k].name == x.name)) {
            continue;
        }
        let inner = match &x.def {
            TokDef::Str(v) => json!({"type": "STRING", "value": v}),
            TokDef::Pat(r) => {
                let mut p = String::new();
                r.render(&mut p, true);
                json!({"type": "PATTERN", "value": p})
            }
        };
        rules.insert(x.name.clone(), inner);
    }
    let name = format!("lc{}", t.u16());
    let g = json!({"name": name, "rules": Value::Object(rules), "extras": [{"type": "PATTERN", "value": "\\s"}], "conflicts": [], "precedences": [], "externals": [], "inline": [], "supertypes": []});
    let gtext = serde_json::to_string_pretty(&g).unwrap();
    let tl = match lang::temp_lang(&gtext, OptLevel::default()) {
        Ok(l) => l,
        Err(e) => {
            ctx.label("grammar:rejected");
            ctx.label(format!("rejected:{}", e.lines().next().unwrap_or("").chars().take(36).collect::<String>()));
            return;
        }
    };
    ctx.label("grammar:accepted");
    let l = &tl.language;
    let mut parser = Parser::new();
    parser.set_language(l).unwrap();
    let describe = || -> String {
        let mut s = String::new();
        for x in &toks {
            let d = match &x.def {
                TokDef::Str(v) => format!("'{v}'"),
                TokDef::Pat(r) => {
                    let mut p = String::new();
                    r.render(&mut p, true);
                    format!("/{p}/")
                }
            };
            s.push_str(&format!("{}={} ", x.name, d));
        }
        for (i, sub) in subsets.iter().enumerate() {
            s.push_str(&format!("| after '{}': {{{}}} ", prefixes[i], sub.iter().map(|&k| toks[k].name.clone()).collect::<Vec<_>>().join(",")));
        }
        s
    };
    // every string over {a,b,c,d,1,2,3} up to length 3 plus the pool words and their concatenations
    let sigma = ['a', 'b', 'c', 'd', '1'];
    let mut texts: Vec<Vec<char>> = vec![];
    let mut layer: Vec<Vec<char>> = vec![vec![]];
    for _ in 0..3 {
        let mut next = vec![];
        for s in &layer {
            for c in sigma {
                let mut x = s.clone();
                x.push(c);
                next.push(x);
            }
        }
        texts.extend(next.iter().cloned());
        layer = next;
    }
    for a in words {
        for b in words {
            texts.push(format!("{a}{b}").chars().collect());
        }
    }
    texts.push(vec!['2']);
    texts.push(vec!['3']);
    // Rules with one and the same pattern are ONE token for the generator (extract_tokens de-duplicates them); its place
    // in the rule order is that of its first occurrence in the grammar.
    let in_grammar = |k: usize| subsets.iter().any(|sub| sub.contains(&k));
    let rendered: Vec<String> = toks
        .iter()
        .map(|x| match &x.def {
            TokDef::Str(v) => format!("'{v}"),
            TokDef::Pat(r) => {
                let mut p = String::from("/");
                r.render(&mut p, true);
                p
            }
        })
        .collect();
    let rank: Vec<usize> = (0..toks.len()).map(|k| (0..=k).find(|&j| in_grammar(j) && rendered[j] == rendered[k]).unwrap_or(k)).collect();
    ctx.label_if((0..toks.len()).any(|k| in_grammar(k) && rank[k] != k), "contexts:duplicate_pattern");
    let mut shadowing = false;
    for (i, sub) in subsets.iter().enumerate() {
        for s in &texts {
            // tokens of this context that match the whole text; the documented order picks among them
            let mut best: Option<usize> = None;
            let mut n_all = 0;
            for (k, x) in toks.iter().enumerate() {
                let full = match &x.def {
                    TokDef::Str(v) => v.chars().eq(s.iter().copied()),
                    TokDef::Pat(r) => ends(r, s, 0).contains(&s.len()),
                };
                if !full {
                    continue;
                }
                n_all += 1;
                if !sub.contains(&k) {
                    continue;
                }
                let key = |k: usize| (matches!(toks[k].def, TokDef::Str(_)), -(rank[k] as i64));
                if best.map(|b| key(k) > key(b)).unwrap_or(true) {
                    best = Some(k);
                }
            }
            // the interesting inputs: a token that is not valid here matches the text too
            let contested = best.is_some() && n_all >= 2;
            shadowing |= contested;
            for spaced in [true, false] {
                let body: String = s.iter().collect();
                let text = if spaced { format!("{} {}", prefixes[i], body) } else { format!("{}{}", prefixes[i], body) };
                let tree = parser.parse(&text, None).unwrap();
                ctx.out.inner += 1;
                if contested {
                    ctx.out.inner_hashes.push(fnv(format!("{gtext}|{text}").as_bytes()));
                }
                let xt = XTree::build(&tree);
                let has_err = tree.root_node().has_error() || xt.any_error();
                let start = text.len() - body.len();
                match best {
                    None => {
                        if !has_err {
                            ctx.fail("C14:context:accepts_invalid_token", format!("after '{}' no valid token matches {body:?}, but {text:?} parses without error: {}\n{}", prefixes[i], xt.render(l, 30), describe()));
                            return;
                        }
                    }
                    Some(k) => {
                        if has_err {
                            ctx.fail("C14:context:rejects_valid_token", format!("after '{}' the valid token {} matches {body:?}, but {text:?} has an error: {}\n{}", prefixes[i], toks[k].name, xt.render(l, 30), describe()));
                            return;
                        }
                        let got: Vec<(String, usize, usize)> = xt.leaves().filter(|n| n.parent.is_some()).map(|n| (kind_name(l, n.kind_id).to_string(), n.start, n.end)).collect();
                        let want = vec![(prefixes[i].to_string(), 0, 1), (toks[k].name.clone(), start, text.len())];
                        if got != want {
                            ctx.fail("C14:context:token_choice_differs", format!("{text:?}: lexer produced {got:?}, the documented rules applied to the tokens valid after '{}' give {want:?}\n{}", prefixes[i], describe()));
                            return;
                        }
                    }
                }
            }
        }
    }
    ctx.label_if(shadowing, "contexts:contested");
    ctx.out.nontrivial = shadowing;
    ctx.out.hash = fnv(gtext.as_bytes());
    if ctx.want_sample {
        ctx.out.sample = json!({"tokens_and_contexts": describe(), "inputs": texts.len() * subsets.len() * 2});
    }
}
