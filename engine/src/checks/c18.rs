//! C18: tags describe the source consistently (ranges, lines, columns, docs, local filtering).
use crate::core::{Check, Ctx, Tier};
use crate::gen::doc::{self, DocClass};
use crate::lang;
use crate::model::text::{show_bytes, Text};
use crate::tape::{fnv, Tape};
use serde_json::json;
use std::collections::BTreeSet;
use std::sync::OnceLock;
use streaming_iterator::StreamingIterator;
use tree_sitter::{Parser, Query, QueryCursor};
use tree_sitter_tags::{Tag, TagsConfiguration, TagsContext};

pub struct C18;

struct Cfg {
    tags: TagsConfiguration,
    /// my own compiled copy of locals+tags (same concatenation) to recompute docs and locality
    query: Query,
    locals_patterns: usize,
}

fn cfg() -> &'static Cfg {
    static C: OnceLock<Cfg> = OnceLock::new();
    C.get_or_init(|| {
        let l = lang::zoo("mini");
        let tags_q = l.query_src("tags.scm").expect("zoo/mini/queries/tags.scm");
        let locals_q = l.query_src("tags-locals.scm").expect("zoo/mini/queries/tags-locals.scm");
        let tags = TagsConfiguration::new(l.language.clone(), &tags_q, &locals_q).expect("tags configuration");
        let query = Query::new(&l.language, &format!("{locals_q}{tags_q}")).unwrap();
        let mut locals_patterns = 0;
        for i in 0..query.pattern_count() {
            if query.start_byte_for_pattern(i) < locals_q.len() {
                locals_patterns += 1;
            }
        }
        Cfg { tags, query, locals_patterns }
    })
}

fn utf16_len_valid(b: &[u8]) -> Option<usize> {
    std::str::from_utf8(b).ok().map(|s| s.chars().map(char::len_utf16).sum())
}

fn show_tag(t: &Tag, src: &[u8]) -> String {
    format!(
        "name {:?} name_range {:?} range {:?} line_range {:?} span ({},{})..({},{}) utf16 {:?} def {} type {} docs {:?}",
        String::from_utf8_lossy(&src[t.name_range.start.min(src.len())..t.name_range.end.min(src.len())]),
        t.name_range,
        t.range,
        t.line_range,
        t.span.start.row,
        t.span.start.column,
        t.span.end.row,
        t.span.end.column,
        t.utf16_column_range,
        t.is_definition,
        t.syntax_type_id,
        t.docs
    )
}

/// documents with several tags per line, non-ASCII (BMP and astral) text before and inside names, long lines,
/// documented functions, locals shadowing calls, ignored calls
fn tags_doc(t: &mut Tape) -> Vec<u8> {
    const FUNS: &[&str] = &["f", "g", "foo", "é", "λx", "一二", "skip", "naïve", "h"];
    const VARS: &[&str] = &["a", "b", "x", "é", "foo", "g", "h"];
    fn item(t: &mut Tape, out: &mut String, depth: u32) {
        match t.weighted(&[26, 14, 12, 10, 8, 10, 8, 12]) {
            0 => {
                out.push_str(*t.pick(FUNS));
                out.push('(');
                if t.pct(50) {
                    out.push_str(*t.pick(VARS));
                }
                out.push_str(");");
            }
            1 => {
                out.push_str("let ");
                out.push_str(*t.pick(VARS));
                if t.pct(60) {
                    out.push_str(" = ");
                    out.push_str(*t.pick(FUNS));
                    out.push_str("(1)");
                }
                out.push(';');
            }
            2 => {
                out.push('"');
                out.push_str(*t.pick(&["é", "😀", "a😀b", "日本語", "x", "𝒳𝒴", "ß→"]));
                out.push_str("\";");
            }
            3 => {
                out.push_str(*t.pick(&["/* ✓ */", "/* 😀😀 */", "/* c */"]));
            }
            4 if t.pct(50) => {
                // assignment scopes that end with a name (x = x, a = b = a)
                out.push_str(*t.pick(VARS));
                out.push_str(" = ");
                if t.pct(30) {
                    out.push_str(*t.pick(VARS));
                    out.push_str(" = ");
                }
                out.push_str(*t.pick(VARS));
                out.push(';');
            }
            4 => {
                out.push_str(*t.pick(VARS));
                out.push('.');
                out.push_str(*t.pick(&["p", "é", "len"]));
                out.push(';');
            }
            5 if depth < 3 => {
                out.push('{');
                for _ in 0..t.below(4) {
                    out.push(' ');
                    item(t, out, depth + 1);
                }
                out.push_str(" }");
            }
            6 if depth < 2 => {
                out.push_str("fn ");
                out.push_str(*t.pick(FUNS));
                out.push('(');
                let k = t.below(3);
                for i in 0..k {
                    if i > 0 {
                        out.push_str(", ");
                    }
                    out.push_str(*t.pick(&["g", "h", "a", "é", "f"]));
                }
                out.push_str(") {");
                for _ in 0..t.below(4) {
                    out.push(' ');
                    item(t, out, depth + 1);
                }
                out.push_str(" }");
            }
            _ => {
                out.push_str(*t.pick(FUNS));
                out.push('(');
                out.push_str(*t.pick(FUNS));
                out.push_str("(2)); ");
            }
        }
    }
    let mut out = String::new();
    let lines = 1 + t.below(12);
    for _ in 0..lines {
        match t.weighted(&[10, 12, 78]) {
            0 => {
                // documented function over several lines
                let ind = *t.pick(&["", "  ", "\t"]);
                for _ in 0..t.below(4) {
                    out.push_str(ind);
                    out.push_str(*t.pick(&["// doc line", "//   spaced é", "//", "//x"]));
                    out.push('\n');
                    if t.pct(12) {
                        out.push('\n');
                    }
                }
                out.push_str(ind);
                out.push_str("fn ");
                out.push_str(*t.pick(FUNS));
                out.push_str("(a) {\n");
                for _ in 0..t.below(3) {
                    out.push_str(ind);
                    out.push_str("  ");
                    item(t, &mut out, 1);
                    out.push('\n');
                }
                out.push_str(ind);
                out.push_str("}\n");
            }
            1 => {
                // a long line
                out.push_str(*t.pick(&["", " ", "\t\t"]));
                let n = 12 + t.below(50);
                for _ in 0..n {
                    item(t, &mut out, 2);
                    out.push(' ');
                }
                out.push('\n');
            }
            _ => {
                out.push_str(*t.pick(&["", "", "  ", "\t", "    ", " \t "]));
                for _ in 0..1 + t.below(5) {
                    item(t, &mut out, 0);
                    out.push_str(*t.pick(&[" ", "", "  ", "\t"]));
                }
                out.push('\n');
            }
        }
    }
    if t.pct(20) {
        while out.ends_with('\n') {
            out.pop();
        }
    }
    out.into_bytes()
}

impl Check for C18 {
    fn id(&self) -> &'static str {
        "C18"
    }
    fn rule(&self) -> String {
        "case = 1-3 mini documents tagged by one reused TagsContext with zoo/mini/queries/{tags.scm,locals.scm} (documented functions with @doc + #strip! + #select-adjacent!, let definitions, call references with (#is-not? local), property references, an @ignore pattern for calls of `skip`). Documents: line-oriented generator (several tags per line, BMP and astral characters before and inside names, lines > 180 bytes, leading/trailing blanks and tabs, comment blocks with gaps), 25% from the generic sentence/mutation/random generators, 15% CRLF, 10% invalid UTF-8. Oracles per emitted tag: name_range within range within [0,len]; span = points of the name by my text model; syntax type id resolves; line_range = the line containing the name start with ASCII whitespace trimmed at both ends, cut at 180 bytes after the trimmed start moved back to a character boundary (judged on valid UTF-8 documents; otherwise only: inside the text, no newline inside, begins on the name's line); utf16_column_range.start = UTF-16 length of the text from the line start to the name, width = UTF-16 length of the name (valid UTF-8); docs = recomputation from my own run of the same query (doc captures of a match of the lowest pattern index for that name, select-adjacent by rows, strip regex, joined by newline); no tag emitted from the (#is-not? local) pattern has a same-text local definition whose statement ends before the tag's node in a scope enclosing the name; conversely every name matched by a tag pattern, error-free, not ignored and with no same-text definition anywhere in an enclosing scope is emitted exactly once; tags are equal to a fresh context's. evaluations = tags judged. Non-trivial: >= 2 tags with two on one row and a non-ASCII character before the second; distinct by hash(source).".into()
    }
    fn cases(&self, tier: Tier) -> u64 {
        match tier {
            Tier::Quick => 50_000,
            Tier::Thorough => 500_000,
        }
    }
    fn langs(&self) -> Vec<&'static str> {
        vec!["mini"]
    }
    fn floors(&self) -> Vec<(&'static str, f64)> {
        vec![("row:two_tags", 0.30), ("row:nonascii_before_second", 0.25), ("line:long", 0.05), ("docs:some", 0.08), ("local:omitted", 0.05), ("src:crlf", 0.08), ("src:invalid_utf8", 0.05)]
    }
    fn run_case(&self, ctx: &mut Ctx, t: &mut Tape) {
        let c = cfg();
        let l = lang::zoo("mini");
        let mut tc = TagsContext::new();
        let ndocs = 1 + t.weighted(&[55, 30, 15]);
        let mut nontrivial = false;
        let mut case_hash = 0u64;
        for di in 0..ndocs {
            let mut src: Vec<u8> = if t.pct(75) {
                tags_doc(t)
            } else {
                let class = doc::gen_class(t, &[50, 30, 10, 8, 2, 0]);
                let _ = DocClass::Sentence;
                doc::gen_doc(l, class, t)
            };
            if src.len() > 8000 {
                src.truncate(8000);
            }
            if t.pct(15) {
                ctx.label("src:crlf");
                let mut o = vec![];
                for &b in &src {
                    if b == b'\n' {
                        o.extend_from_slice(b"\r\n");
                    } else {
                        o.push(b);
                    }
                }
                src = o;
            }
            if t.pct(10) {
                ctx.label("src:invalid_utf8");
                for _ in 0..1 + t.below(3) {
                    let junk: &[u8] = *t.pick(&[&b"\xff"[..], b"\xc3", b"\xe2\x82", b"\xf0\x9f\x98", b"\x80"]);
                    let at = t.below(src.len() + 1);
                    src.splice(at..at, junk.iter().copied());
                }
            }
            let valid = std::str::from_utf8(&src).is_ok();
            let text = Text::new(src.clone());
            case_hash = fnv(format!("{case_hash}|{}", fnv(&src)).as_bytes());
            let shown = || show_bytes(&src, 500);

            let collect = |tc: &mut TagsContext| -> Result<Vec<Tag>, String> {
                let (it, _has_err) = tc.generate_tags(&c.tags, &src, None).map_err(|e| format!("generate_tags failed: {e:?}"))?;
                let mut v = vec![];
                for x in it {
                    v.push(x.map_err(|e| format!("tag error: {e:?}"))?);
                    if v.len() > 1_000_000 {
                        return Err("more than 1M tags".into());
                    }
                }
                Ok(v)
            };
            let tags = match collect(&mut tc) {
                Ok(v) => v,
                Err(e) => {
                    ctx.fail("C18:error", format!("{e}\nsource {}", shown()));
                    return;
                }
            };

            // ---- my own run of the query
            let mut p = Parser::new();
            p.set_language(&l.language).unwrap();
            let tree = p.parse(&src, None).unwrap();
            let q = &c.query;
            let cap = |n: &str| q.capture_index_for_name(n);
            let (c_name, c_doc, c_ignore, c_scope, c_def) = (cap("name"), cap("doc"), cap("ignore"), cap("local.scope"), cap("local.definition"));
            struct M {
                pattern: usize,
                name: (usize, usize),
                name_has_error: bool,
                tag: Option<((usize, usize), String)>, // tag node range, capture name
                ignored: bool,
                docs: Option<String>,
                non_local_only: bool,
            }
            let mut ms: Vec<M> = vec![];
            let mut scopes: Vec<(usize, usize)> = vec![];
            let mut defs: Vec<((usize, usize), usize)> = vec![]; // name range, end of the defining statement
            let strip = regex::Regex::new("^//\\s*").unwrap();
            let mut qc = QueryCursor::new();
            let mut it = qc.matches(q, tree.root_node(), src.as_slice());
            while let Some(m) = it.next() {
                if m.pattern_index < c.locals_patterns {
                    for cp in m.captures {
                        let r = (cp.node.start_byte(), cp.node.end_byte());
                        if Some(cp.index) == c_scope {
                            scopes.push(r);
                        } else if Some(cp.index) == c_def {
                            let stmt_end = cp.node.parent().map(|p| p.end_byte()).unwrap_or(r.1);
                            defs.push((r, stmt_end));
                        }
                    }
                    continue;
                }
                let mut name = None;
                let mut tagc = None;
                let mut ignored = false;
                let mut docs_nodes = vec![];
                for cp in m.captures {
                    let cname = q.capture_names()[cp.index as usize];
                    if Some(cp.index) == c_ignore {
                        ignored = true;
                        name = Some(cp.node);
                    } else if Some(cp.index) == c_name {
                        name = Some(cp.node);
                    } else if Some(cp.index) == c_doc {
                        docs_nodes.push(cp.node);
                    } else if cname.starts_with("definition.") || cname.starts_with("reference.") {
                        tagc = Some(cp.node);
                    }
                }
                let Some(name) = name else { continue };
                let non_local_only = q.property_predicates(m.pattern_index).iter().any(|(p, pos)| !*pos && p.key.as_ref() == "local");
                // docs: select-adjacent to the tag node (rows), strip, join
                let mut docs = None;
                if let Some(tn) = tagc {
                    let mut start_row = tn.start_position().row;
                    let mut keep = vec![];
                    let has_adjacent = q.general_predicates(m.pattern_index).iter().any(|p| p.operator.as_ref() == "select-adjacent!");
                    for d in docs_nodes.iter().rev() {
                        if has_adjacent {
                            if d.end_position().row + 1 >= start_row {
                                keep.push(*d);
                                start_row = d.start_position().row;
                            } else {
                                break;
                            }
                        } else {
                            keep.push(*d);
                        }
                    }
                    keep.reverse();
                    let has_strip = q.general_predicates(m.pattern_index).iter().any(|p| p.operator.as_ref() == "strip!");
                    for d in keep {
                        if let Ok(s) = std::str::from_utf8(&src[d.byte_range()]) {
                            let s = if has_strip { strip.replace_all(s, "").to_string() } else { s.to_string() };
                            match &mut docs {
                                None => docs = Some(s),
                                Some(x) => {
                                    x.push('\n');
                                    x.push_str(&s);
                                }
                            }
                        }
                    }
                }
                ms.push(M {
                    pattern: m.pattern_index,
                    name: (name.start_byte(), name.end_byte()),
                    name_has_error: name.has_error(),
                    tag: tagc.map(|n| ((n.start_byte(), n.end_byte()), String::new())),
                    ignored,
                    docs,
                    non_local_only,
                });
            }
            let enclosing = |r: (usize, usize)| -> Vec<(usize, usize)> { scopes.iter().copied().filter(|s| s.0 <= r.0 && r.1 <= s.1).collect() };
            let scope_of_def = |d: (usize, usize)| -> Option<(usize, usize)> { enclosing(d).into_iter().min_by_key(|s| s.1 - s.0) };
            // definitely local / possibly local
            let locality = |name: (usize, usize), tag_start: usize| -> (bool, bool) {
                let enc = enclosing(name);
                let mut definitely = false;
                let mut possibly = false;
                for (d, stmt_end) in &defs {
                    if src[d.0..d.1] != src[name.0..name.1] {
                        continue;
                    }
                    let visible = match scope_of_def(*d) {
                        None => true,
                        Some(s) => enc.contains(&s),
                    };
                    if visible {
                        possibly = true;
                        // the definition's match is certainly delivered before the reference's: its statement ends
                        // before the tag node starts, or (same statement) the defining name ends before the name
                        // starts and the locals patterns come first in the query
                        if *stmt_end <= tag_start || d.1 <= name.0 {
                            definitely = true;
                        }
                    }
                }
                (definitely, possibly)
            };

            // ---- per-tag oracles
            let mut seen_names: BTreeSet<(usize, usize)> = BTreeSet::new();
            let mut rows: std::collections::BTreeMap<usize, Vec<usize>> = Default::default();
            for tg in &tags {
                ctx.out.inner += 1;
                let (ns, ne) = (tg.name_range.start, tg.name_range.end);
                if !(tg.range.start <= ns && ns <= ne && ne <= tg.range.end && tg.range.end <= src.len()) {
                    let sig = if tg.range.start == usize::MAX { "C18:ranges:ignored_tag_emitted" } else { "C18:ranges:not_nested" };
                    if ctx.fail(sig, format!("{}\nsource {}", show_tag(tg, &src), shown())) {
                        return;
                    }
                    continue;
                }
                if !seen_names.insert((ns, ne)) {
                    ctx.fail("C18:duplicate_tag_for_name", format!("{}\nsource {}", show_tag(tg, &src), shown()));
                    return;
                }
                rows.entry(tg.span.start.row).or_default().push(ns);
                if tg.span.start != text.point_of(ns) || tg.span.end != text.point_of(ne) {
                    ctx.fail("C18:span", format!("{}; expected {:?}..{:?}\nsource {}", show_tag(tg, &src), text.point_of(ns), text.point_of(ne), shown()));
                    return;
                }
                if std::panic::catch_unwind(|| c.tags.syntax_type_name(tg.syntax_type_id).to_string()).is_err() {
                    ctx.fail("C18:syntax_type", format!("{}\nsource {}", show_tag(tg, &src), shown()));
                    return;
                }
                // line
                let ls = text.line_start(tg.span.start.row);
                let le = src[ls..].iter().position(|b| *b == b'\n').map(|i| ls + i).unwrap_or(src.len());
                let lr = tg.line_range.clone();
                if !(lr.start <= lr.end && lr.end <= src.len()) || src[lr.clone()].contains(&b'\n') || lr.start < ls || lr.start > le {
                    ctx.fail("C18:line_range:outside_line", format!("{}; the name's line is {ls}..{le}\nsource {}", show_tag(tg, &src), shown()));
                    return;
                }
                if valid {
                    let mut s = ls;
                    while s < le && src[s].is_ascii_whitespace() {
                        s += 1;
                    }
                    let mut e = le.min(s + 180);
                    while !text.is_char_boundary(e) {
                        e -= 1;
                    }
                    while e > s && src[e - 1].is_ascii_whitespace() {
                        e -= 1;
                    }
                    ctx.label_if(le - s > 180, "line:long");
                    if (lr.start, lr.end) != (s, e) {
                        ctx.fail("C18:line_range", format!("{}; expected line range {s}..{e} (line {ls}..{le})\nsource {}", show_tag(tg, &src), shown()));
                        return;
                    }
                    let c0 = utf16_len_valid(&src[ls..ns]).unwrap();
                    let w = utf16_len_valid(&src[ns..ne]).unwrap();
                    if (tg.utf16_column_range.start, tg.utf16_column_range.end) != (c0, c0 + w) {
                        let prev_same_row = rows.get(&tg.span.start.row).map(|v| v.len() > 1).unwrap_or(false);
                        let sig = if prev_same_row { "C18:utf16_columns:after_tag_on_same_row" } else { "C18:utf16_columns" };
                        ctx.fail(sig, format!("{}; expected UTF-16 columns {}..{}\nsource {}", show_tag(tg, &src), c0, c0 + w, shown()));
                        return;
                    }
                }
                // docs + locality through my matches
                let cands: Vec<&M> = ms.iter().filter(|m| m.name == (ns, ne) && m.tag.is_some() && !m.ignored).collect();
                if cands.is_empty() {
                    ctx.fail("C18:tag_without_match", format!("{}: my run of the query has no tag match for this name\nsource {}", show_tag(tg, &src), shown()));
                    return;
                }
                let minp = cands.iter().map(|m| m.pattern).min().unwrap();
                let best: Vec<&&M> = cands.iter().filter(|m| m.pattern == minp).collect();
                if !best.iter().any(|m| m.docs == tg.docs) {
                    ctx.fail("C18:docs", format!("{}; recomputed docs {:?}\nsource {}", show_tag(tg, &src), best.iter().map(|m| m.docs.clone()).collect::<Vec<_>>(), shown()));
                    return;
                }
                ctx.label_if(tg.docs.is_some(), "docs:some");
                if best.iter().all(|m| m.non_local_only) {
                    let tag_start = best.iter().map(|m| m.tag.as_ref().unwrap().0 .0).min().unwrap();
                    let (definitely, _) = locality((ns, ne), tag_start);
                    if definitely {
                        ctx.fail("C18:local:local_name_emitted", format!("{} comes from the (#is-not? local) pattern but an earlier same-text definition is in an enclosing scope\nsource {}", show_tag(tg, &src), shown()));
                        return;
                    }
                }
            }
            // ---- conversely: clearly non-local, error-free, not ignored names are emitted
            for m in &ms {
                if m.tag.is_none() || m.ignored || m.name_has_error || m.name.1 == m.name.0 {
                    continue;
                }
                // ignored by a lower or equal pattern at the same name?
                if ms.iter().any(|o| o.ignored && o.name == m.name) {
                    ctx.label("ignore:applied");
                    continue;
                }
                let (definitely, possibly) = locality(m.name, m.tag.as_ref().unwrap().0 .0);
                if m.non_local_only && definitely {
                    ctx.label("local:omitted");
                }
                // emitted through another (unconditional) pattern?
                let unconditional = ms.iter().any(|o| o.name == m.name && o.tag.is_some() && !o.non_local_only && !o.ignored);
                if (m.non_local_only && possibly && !unconditional) || seen_names.contains(&m.name) {
                    continue;
                }
                if ctx.fail("C18:missing_tag", format!("name {:?} at {:?} is matched by tag pattern {} (error-free, not ignored, no same-text local definition in scope) but no tag was emitted\nsource {}", String::from_utf8_lossy(&src[m.name.0..m.name.1]), m.name, m.pattern, shown())) {
                    return;
                }
                break;
            }
            // ---- reuse
            if di > 0 {
                let mut fresh = TagsContext::new();
                match collect(&mut fresh) {
                    Ok(v2) => {
                        let a: Vec<String> = tags.iter().map(|x| show_tag(x, &src)).collect();
                        let b: Vec<String> = v2.iter().map(|x| show_tag(x, &src)).collect();
                        if a != b {
                            ctx.fail("C18:reuse:tags_differ", format!("document {di} of a reused TagsContext vs a fresh one\nreused {:?}\nfresh {:?}\nsource {}", a.iter().take(8).collect::<Vec<_>>(), b.iter().take(8).collect::<Vec<_>>(), shown()));
                            return;
                        }
                    }
                    Err(e) => {
                        ctx.fail("C18:error", e);
                        return;
                    }
                }
            }
            // ---- classification
            let mut two = false;
            let mut nonascii_before_second = false;
            for (row, v) in &rows {
                if v.len() >= 2 {
                    two = true;
                    let ls = text.line_start(*row);
                    let mut v = v.clone();
                    v.sort();
                    if src[ls..v[1]].iter().any(|b| *b >= 0x80) {
                        nonascii_before_second = true;
                    }
                }
            }
            ctx.label_if(two, "row:two_tags");
            ctx.label_if(nonascii_before_second, "row:nonascii_before_second");
            if tags.len() >= 2 && nonascii_before_second {
                nontrivial = true;
                ctx.out.inner_hashes.push(fnv(&src));
            }
            if ctx.want_sample && di == 0 {
                ctx.out.sample = json!({"source": show_bytes(&src, 200), "tags": tags.len(), "first": tags.first().map(|x| show_tag(x, &src))});
            }
        }
        ctx.out.nontrivial = nontrivial;
        ctx.out.hash = case_hash;
    }
}

/// builds the process-lifetime caches (used by C07 before it installs its counting allocator)
pub fn warm() {
    let _ = cfg();
}
