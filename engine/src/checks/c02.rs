//! C02: every parse terminates with a well-formed tree that tiles the text.
use crate::checks::treecheck::validate_tree;
use crate::core::{Check, Ctx, Tier};
use crate::drive::{self, Chunking};
use crate::gen::doc::{self, DocClass};
use crate::gen::edits::EditGen;
use crate::lang;
use crate::model::text::{show_bytes, Text};
use crate::tape::{fnv, Tape};
use serde_json::json;
use tree_sitter::{Parser, Range};

pub struct C02;

pub const LANGS: &[&str] = &["mini", "arith", "json", "glr", "indent", "heredoc", "tmpl", "alias"];

pub fn pick_lang(t: &mut Tape, langs: &[&'static str], weights: &[u32]) -> &'static str {
    langs[t.weighted(weights)]
}

/// random accepted included-range list over a text of `len` bytes
pub fn gen_ranges(t: &mut Tape, text: &Text) -> Vec<Range> {
    let len = text.len();
    let n = 1 + t.below(4);
    let mut cuts: Vec<usize> = (0..2 * n).map(|_| t.below(len + 1)).collect();
    cuts.sort();
    let mut out = vec![];
    for k in 0..n {
        let (s, e) = (cuts[2 * k], cuts[2 * k + 1]);
        out.push(Range { start_byte: s, end_byte: e, start_point: text.point_of(s), end_point: text.point_of(e) });
    }
    out
}

impl Check for C02 {
    fn id(&self) -> &'static str {
        "C02"
    }
    fn rule(&self) -> String {
        "case = zoo language x byte string from 6 classes (sentence, mutated sentence, random bytes, pathological UTF-8/NUL/BOM/CR, empty, huge repeats/deep nesting) x chunking; 30% continue with 1-4 edits+re-parses, 10% use included ranges; every returned tree is judged by the validity predicate (inside text, ordered/disjoint/contained children, points = newline counting, tiling, literal text, MISSING empty, has_error iff ERROR/MISSING below, advertised counts = enumeration) and the parse must finish within a deterministic progress-callback budget. Non-trivial: tree has >= 10 nodes and (contains ERROR/MISSING, or spans >= 2 lines, or has non-ASCII text); distinct by hash of (language, text, edits).".into()
    }
    fn cases(&self, tier: Tier) -> u64 {
        match tier {
            Tier::Quick => 100_000,
            Tier::Thorough => 1_500_000,
        }
    }
    fn tape_len(&self) -> usize {
        3072
    }
    fn langs(&self) -> Vec<&'static str> {
        LANGS.to_vec()
    }
    fn floors(&self) -> Vec<(&'static str, f64)> {
        vec![("tree:erroneous", 0.30), ("tree:missing", 0.03), ("text:invalid_utf8", 0.05), ("text:crlf", 0.04), ("tree:depth>500", 0.003), ("tree:nodes>10000", 0.003), ("with_edits", 0.15), ("with_ranges", 0.05), ("text:bom", 0.02)]
    }
    fn run_case(&self, ctx: &mut Ctx, t: &mut Tape) {
        let lname = pick_lang(t, LANGS, &[28, 13, 11, 10, 11, 9, 10, 8]);
        let lang = lang::zoo(lname);
        let class = doc::gen_class(t, &[34, 28, 12, 14, 2, 10]);
        let mut bytes = doc::gen_doc(lang, class, t);
        // a byte order mark in front (the lexer skips it at offset 0; it still counts as three bytes of row 0)
        if t.pct(5) {
            let mut b = vec![0xEF, 0xBB, 0xBF];
            b.extend_from_slice(&bytes);
            bytes = b;
            ctx.label("text:bom");
        }
        let mut text = Text::new(bytes);
        ctx.label(class.name());
        ctx.label(format!("lang:{lname}"));
        let chunk = Chunking::gen(t, text.len());
        ctx.label_if(chunk.is_chunked(), "chunked");
        let mut parser = Parser::new();
        parser.set_language(&lang.language).expect("set_language");
        let with_ranges = t.pct(10);
        let mut ranges: Option<Vec<Range>> = None;
        if with_ranges {
            let r = gen_ranges(t, &text);
            if parser.set_included_ranges(&r).is_ok() {
                ranges = Some(r);
                ctx.label("with_ranges");
            }
        }
        let mut hash_src: Vec<u8> = Vec::new();
        hash_src.extend_from_slice(lname.as_bytes());
        hash_src.extend_from_slice(&text.bytes);
        let (tree, st) = drive::parse(&mut parser, &text.bytes, None, &chunk, Some(drive::termination_budget(text.len())));
        let describe = |text: &Text| format!("lang={lname} class={} chunk={} text={:?}", class.name(), chunk.describe(), show_bytes(&text.bytes, 400));
        let mut tree = match tree {
            Some(tr) => tr,
            None => {
                if st.cancelled {
                    ctx.fail("C02:nonterminating", format!("parse exceeded the operation budget ({} progress callbacks); {}", st.callbacks, describe(&text)));
                } else {
                    ctx.fail("C02:no_tree", format!("parse returned no tree; {}", describe(&text)));
                }
                return;
            }
        };
        let mut nontrivial = false;
        let mut classify = |ctx: &mut Ctx, text: &Text, f: &crate::checks::treecheck::TreeFacts| {
            let nonascii = text.bytes.iter().any(|b| *b >= 0x80);
            let lines = text.line_count();
            ctx.label_if(f.errors > 0 || f.missing > 0, "tree:erroneous");
            ctx.label_if(f.missing > 0, "tree:missing");
            ctx.label_if(std::str::from_utf8(&text.bytes).is_err(), "text:invalid_utf8");
            ctx.label_if(text.bytes.windows(2).any(|w| w == b"\r\n"), "text:crlf");
            ctx.label_if(f.max_depth > 500, "tree:depth>500");
            ctx.label_if(f.nodes > 10000, "tree:nodes>10000");
            ctx.label_if(f.zero_width > 0, "tree:zero_width_node");
            ctx.label_if(nonascii, "text:non_ascii");
            f.nodes >= 10 && (f.errors > 0 || f.missing > 0 || lines >= 2 || nonascii)
        };
        let (_xt, facts) = validate_tree(ctx, "C02", lang, &tree, &text, ranges.as_deref(), "fresh parse");
        nontrivial |= classify(ctx, &text, &facts);
        if class == DocClass::Sentence && ranges.is_none() {
            ctx.label(format!("sentence:{}:{lname}", if facts.errors + facts.missing == 0 { "valid" } else { "invalid" }));
        }
        ctx.out.inner += 1;
        let mut edits_desc = vec![];
        if !ctx.failed() && t.pct(30) && text.len() < 20_000 {
            ctx.label("with_edits");
            let mut eg = EditGen::new();
            let n = 1 + t.below(4);
            for step in 0..n {
                let ge = eg.next(lang, &text, t);
                let ie = text.apply(&ge.edit);
                tree.edit(&ie);
                hash_src.extend_from_slice(format!("{:?}", ge.edit).as_bytes());
                edits_desc.push(format!("{}..{} -> {:?}", ge.edit.start, ge.edit.old_end, show_bytes(&ge.edit.inserted, 40)));
                if let Some(rs) = &ranges {
                    // keep using the same byte ranges clipped to the new text (points recomputed from the model)
                    let len = text.len();
                    let nr: Vec<Range> = rs
                        .iter()
                        .map(|r| {
                            let s = r.start_byte.min(len);
                            let e = r.end_byte.min(len);
                            Range { start_byte: s, end_byte: e, start_point: text.point_of(s), end_point: text.point_of(e) }
                        })
                        .collect();
                    if parser.set_included_ranges(&nr).is_ok() {
                        ranges = Some(nr);
                    }
                }
                let (nt, st) = drive::parse(&mut parser, &text.bytes, Some(&tree), &chunk, Some(drive::termination_budget(text.len())));
                match nt {
                    Some(ntree) => {
                        let (_x, f) = validate_tree(ctx, "C02", lang, &ntree, &text, ranges.as_deref(), &format!("after edit {step} {:?}", edits_desc));
                        nontrivial |= classify(ctx, &text, &f);
                        ctx.out.inner += 1;
                        tree = ntree;
                    }
                    None => {
                        if st.cancelled {
                            ctx.fail("C02:nonterminating", format!("re-parse exceeded the operation budget; edits {:?}; {}", edits_desc, describe(&text)));
                        } else {
                            ctx.fail("C02:no_tree", format!("re-parse returned no tree; edits {:?}; {}", edits_desc, describe(&text)));
                        }
                        return;
                    }
                }
                if ctx.failed() {
                    break;
                }
            }
        }
        ctx.out.hash = fnv(&hash_src);
        ctx.out.nontrivial = nontrivial;
        if ctx.want_sample || ctx.failed() {
            ctx.out.sample = json!({"lang": lname, "class": class.name(), "chunking": chunk.describe(), "text": show_bytes(&text.bytes, 200), "edits": edits_desc, "ranges": ranges.as_ref().map(|r| r.iter().map(|x| (x.start_byte, x.end_byte)).collect::<Vec<_>>()), "nodes": facts.nodes, "errors": facts.errors, "missing": facts.missing});
        }
    }
}
