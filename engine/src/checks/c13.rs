//! C13: parsing included ranges equals parsing their concatenation.
use crate::core::{Check, Ctx, Tier};
use crate::gen::doc::{self, DocClass};
use crate::lang;
use crate::model::text::{show_bytes, Text};
use crate::model::xtree::{kind_name, XTree};
use crate::tape::{fnv, Tape};
use serde_json::json;
use tree_sitter::{Parser, Point, Range};

pub struct C13;

const LANGS: &[&str] = &["mini", "arith", "json", "heredoc", "glr", "indent"];

impl Check for C13 {
    fn id(&self) -> &'static str {
        "C13"
    }
    fn rule(&self) -> String {
        "case = zoo language x document x list of 1-8 included ranges with arbitrary boundaries (mid-token, mid-line, mid-character, empty ranges, ranges ending at or after EOF, adjacent ranges; for the column-sensitive indent language only line-aligned ranges). T1 = parse(document, ranges); C = concatenation of the ranges; T2 = parse(C). When T2 is error-free: same shape (kinds, nesting, fields, flags) and every node position maps back: T1.start = position in the document of C's byte T2.start, T1.end = one past the document position of C's byte T2.end-1, points by the document's text model; every leaf starts and ends inside an included range. When T2 has errors T1 must have errors. Setter: set_included_ranges(L) is Ok exactly for ordered non-overlapping lists with end >= start (invalid lists are generated: unordered, overlapping, reversed); tree.included_ranges() returns the list given. evaluations = (document, ranges) pairs + setter calls. Non-trivial: >= 2 ranges, a gap splits a token or a line, T2 error-free, >= 5 nodes; distinct by hash(language, text, ranges).".into()
    }
    fn cases(&self, tier: Tier) -> u64 {
        match tier {
            Tier::Quick => 100_000,
            Tier::Thorough => 2_000_000,
        }
    }
    fn langs(&self) -> Vec<&'static str> {
        LANGS.to_vec()
    }
    fn floors(&self) -> Vec<(&'static str, f64)> {
        vec![("split:token", 0.15), ("split:multibyte", 0.02), ("range:past_eof", 0.04), ("setter:invalid", 0.08), ("concat:valid", 0.25)]
    }
    fn run_case(&self, ctx: &mut Ctx, t: &mut Tape) {
        let lname = LANGS[t.weighted(&[34, 14, 14, 14, 12, 12])];
        let lang = lang::zoo(lname);
        let class = if t.pct(75) { DocClass::Sentence } else { DocClass::Mutated };
        let mut bytes = doc::gen_doc(lang, class, t);
        if bytes.len() > 3000 {
            bytes.truncate(3000);
        }
        // construction mode: the generated text is the CONCATENATION; the document is made from it by inserting
        // junk (excluded text) at 1-7 points, including inside tokens, lines and multi-byte characters
        let mut constructed: Option<Vec<(usize, usize)>> = None;
        if t.pct(65) && lname != "indent" {
            let k = 1 + t.below(7);
            let mut pts: Vec<usize> = (0..k)
                .map(|_| match t.weighted(&[45, 35, 20]) {
                    0 => t.below(bytes.len() + 1),
                    1 => {
                        let bs = crate::gen::edits::boundaries(&bytes);
                        *t.pick(&bs)
                    }
                    _ => {
                        // inside a word
                        let mut p = t.below(bytes.len() + 1);
                        for _ in 0..6 {
                            if p > 0 && p < bytes.len() && bytes[p - 1].is_ascii_alphanumeric() && bytes[p].is_ascii_alphanumeric() {
                                break;
                            }
                            p = t.below(bytes.len() + 1);
                        }
                        p
                    }
                })
                .collect();
            pts.sort();
            pts.dedup();
            let mut docb: Vec<u8> = vec![];
            let mut rs: Vec<(usize, usize)> = vec![];
            let mut prev = 0usize;
            for &p in &pts {
                let seg_start = docb.len();
                docb.extend_from_slice(&bytes[prev..p]);
                rs.push((seg_start, docb.len()));
                let junk: &[u8] = *t.pick(&[&b"JUNK"[..], b" ", b"\n", b"x\ny", b"@@ \"'", "é".as_bytes(), b"\n\n  ", b"0", b"/* */", b"a b c\nd e f\n"]);
                docb.extend_from_slice(junk);
                prev = p;
            }
            let seg_start = docb.len();
            docb.extend_from_slice(&bytes[prev..]);
            rs.push((seg_start, docb.len()));
            if t.pct(30) {
                docb.extend_from_slice(b" trailing junk");
            }
            bytes = docb;
            constructed = Some(rs);
            ctx.label("ranges:constructed");
        }
        let text = Text::new(bytes);
        let b = &text.bytes;
        let len = b.len();
        ctx.label(format!("lang:{lname}"));
        let mk = |s: usize, e: usize| -> Range { Range { start_byte: s, end_byte: e, start_point: text.point_of(s.min(len)), end_point: text.point_of(e.min(len)) } };
        // --- setter acceptance on possibly invalid lists
        {
            let n = 1 + t.below(5);
            let mut raw: Vec<(usize, usize)> = (0..n).map(|_| (t.below(len + 2), t.below(len + 2))).collect();
            let mode = t.below(4);
            if mode == 0 {
                // valid: sort everything
                let mut cuts: Vec<usize> = raw.iter().flat_map(|&(a, b)| [a, b]).collect();
                cuts.sort();
                raw = cuts.chunks(2).map(|c| (c[0], c[1])).collect();
            } else if mode == 1 {
                for r in raw.iter_mut() {
                    if r.0 > r.1 {
                        std::mem::swap(&mut r.0, &mut r.1);
                    }
                }
                raw.sort();
                // may overlap
            }
            let list: Vec<Range> = raw.iter().map(|&(s, e)| mk(s, e)).collect();
            let mut ok_ref = true;
            let mut prev_end = 0usize;
            for (i, r) in raw.iter().enumerate() {
                if r.1 < r.0 || (i > 0 && r.0 < prev_end) {
                    ok_ref = false;
                    break;
                }
                prev_end = r.1;
            }
            let mut p = Parser::new();
            p.set_language(&lang.language).unwrap();
            let got = p.set_included_ranges(&list);
            ctx.out.inner += 1;
            ctx.label_if(!ok_ref, "setter:invalid");
            if got.is_ok() != ok_ref {
                ctx.fail(if ok_ref { "C13:setter:rejected_valid" } else { "C13:setter:accepted_invalid" }, format!("set_included_ranges({:?}) -> {:?}, reference says valid={ok_ref}", raw, got.is_ok()));
                return;
            }
            if ok_ref {
                let back: Vec<(usize, usize)> = p.included_ranges().iter().map(|r| (r.start_byte, r.end_byte)).collect();
                if back != raw {
                    ctx.fail("C13:setter:parser_ranges_roundtrip", format!("set {:?}, parser.included_ranges() = {:?}", raw, back));
                    return;
                }
            }
        }
        // --- the main relation
        let n = 1 + t.weighted(&[10, 25, 25, 15, 10, 7, 5, 3]);
        let line_aligned = lname == "indent";
        let mut cuts: Vec<usize> = (0..2 * n)
            .map(|_| {
                let p = match t.weighted(&[22, 43, 35]) {
                    0 => t.below(len + 1),
                    1 => {
                        let bs = crate::gen::edits::boundaries(b);
                        *t.pick(&bs)
                    }
                    _ => text.line_start(t.below(text.line_count())),
                };
                if line_aligned {
                    text.line_start(text.point_of(p).row)
                } else {
                    p
                }
            })
            .collect();
        cuts.sort();
        let mut rs: Vec<(usize, usize)> = cuts.chunks(2).map(|c| (c[0], c[1])).collect();
        let was_constructed = constructed.is_some();
        if let Some(c) = constructed {
            rs = c;
        }
        if was_constructed {
            if t.pct(25) {
                if let Some(l) = rs.last_mut() {
                    if l.1 == len {
                        l.1 = len + 1 + t.below(20);
                        ctx.label("range:past_eof");
                    }
                }
            }
        } else if t.pct(12) {
            // last range ends beyond EOF
            if let Some(l) = rs.last_mut() {
                l.1 = len + 1 + t.below(20);
                ctx.label("range:past_eof");
            }
        } else if t.pct(15) {
            if let Some(l) = rs.last_mut() {
                l.1 = len;
            }
        }
        if !was_constructed && t.pct(10) && rs.len() >= 2 {
            // adjacent ranges
            let k = t.below(rs.len() - 1);
            rs[k].1 = rs[k + 1].0;
            ctx.label("range:adjacent");
        }
        let ranges: Vec<Range> = rs.iter().map(|&(s, e)| mk(s, e)).collect();
        let mut p1 = Parser::new();
        p1.set_language(&lang.language).unwrap();
        if p1.set_included_ranges(&ranges).is_err() {
            ctx.fail("C13:setter:rejected_valid", format!("{:?}", rs));
            return;
        }
        let t1 = match p1.parse(b, None) {
            Some(t) => t,
            None => {
                ctx.fail("C13:no_tree", format!("{:?}", rs));
                return;
            }
        };
        ctx.out.inner += 1;
        let hdr = format!("lang={lname} ranges={:?} text={:?}", rs, show_bytes(b, 300));
        // tree reports the ranges it was parsed with
        let rep: Vec<(usize, usize)> = t1.included_ranges().iter().map(|r| (r.start_byte, r.end_byte)).collect();
        if rep != rs {
            ctx.fail("C13:tree_ranges", format!("tree.included_ranges() = {:?}; {hdr}", rep));
            return;
        }
        // concatenation + offset map (C offset -> D offset of that byte)
        let mut concat: Vec<u8> = vec![];
        let mut dpos: Vec<usize> = vec![];
        for &(s, e) in &rs {
            for i in s.min(len)..e.min(len) {
                concat.push(b[i]);
                dpos.push(i);
            }
        }
        let ctext = Text::new(concat);
        let mut p2 = Parser::new();
        p2.set_language(&lang.language).unwrap();
        let t2 = p2.parse(&ctext.bytes, None).unwrap();
        let x1 = XTree::build(&t1);
        let x2 = XTree::build(&t2);
        let e2 = t2.root_node().has_error();
        let e1 = t1.root_node().has_error();
        let has_empty = rs.iter().any(|r| r.0 >= r.1.min(len));
        ctx.label_if(has_empty, "range:empty");
        // classification
        let gap_splits_token = rs.windows(2).any(|w| {
            let (a, bb) = (w[0].1, w[1].0);
            a < bb && a > 0 && a < len && bb < len && !b[a - 1].is_ascii_whitespace() && !b[bb].is_ascii_whitespace()
        });
        let gap_splits_char = rs.iter().any(|r| !text.is_char_boundary(r.0.min(len)) || !text.is_char_boundary(r.1.min(len)));
        ctx.label_if(gap_splits_token, "split:token");
        ctx.label_if(gap_splits_char, "split:multibyte");
        if e2 {
            if !e1 {
                ctx.fail(if gap_splits_char { "C13:split_multibyte_char" } else { "C13:error_not_reported" }, format!("the concatenation has a syntax error but the ranged parse reports none; concat={:?}; {hdr}\nranged={}", show_bytes(&ctext.bytes, 200), x1.render(&lang.language, 80)));
            }
            return;
        }
        ctx.label("concat:valid");
        let l = &lang.language;
        // shape
        let shape = crate::model::xtree::xtree_diff(&x1, &x2, crate::model::xtree::EqOpts::SHAPE);
        if let Some((i, j, d)) = shape {
            let sig = if gap_splits_char { "C13:split_multibyte_char" } else if has_empty { "C13:shape:with_empty_range" } else { "C13:shape" };
            ctx.fail(sig, format!("shape differs at {} / {}: {d}\n{hdr}\nconcat={:?}\nranged={}\nconcat={}", x1.path_kinds(i, l), x2.path_kinds(j, l), show_bytes(&ctext.bytes, 200), x1.render(l, 80), x2.render(l, 80)));
            return;
        }
        // positions
        let phi_s = |c: usize| -> Option<usize> { dpos.get(c).copied() };
        let phi_e = |c: usize| -> Option<usize> { if c == 0 { None } else { dpos.get(c - 1).map(|d| d + 1) } };
        for i in 0..x1.len() {
            let a = &x1.nodes[i];
            let c = &x2.nodes[i];
            let is_root = i == 0;
            if c.end > c.start {
                let es = phi_s(c.start);
                let ee = phi_e(c.end);
                if let (Some(es), Some(ee)) = (es, ee) {
                    let sp = text.point_of(es);
                    let ep = text.point_of(ee);
                    let ok_s = a.start == es && a.sp == (sp.row, sp.column);
                    let ok_e = a.end == ee && a.ep == (ep.row, ep.column);
                    if !ok_s && !is_root {
                        ctx.fail(if gap_splits_char { "C13:split_multibyte_char" } else { "C13:position:start" }, format!("node #{i} {} {:?}: ranged start {} {:?}, expected {} {:?} (concat start {})\n{hdr}\nranged={}\nconcat={}", x1.path_kinds(i, l), kind_name(l, a.kind_id), a.start, a.sp, es, (sp.row, sp.column), c.start, x1.render(l, 80), x2.render(l, 80)));
                        return;
                    }
                    if !ok_e && !is_root {
                        let sig = if gap_splits_char { "C13:split_multibyte_char" } else if has_empty { "C13:position:end_with_empty_range" } else { "C13:position:end" };
                        ctx.fail(sig, format!("node #{i} {} {:?}: ranged end {} {:?}, expected {} {:?} (concat end {})\n{hdr}\nranged={}\nconcat={}", x1.path_kinds(i, l), kind_name(l, a.kind_id), a.end, a.ep, ee, (ep.row, ep.column), c.end, x1.render(l, 80), x2.render(l, 80)));
                        if !ctx.is_known(sig) {
                            return;
                        }
                    }
                }
            }
            // leaves start and end inside an included range
            if a.children.is_empty() && a.end > a.start {
                let inside_start = rs.iter().any(|r| r.0 <= a.start && a.start < r.1);
                let inside_end = rs.iter().any(|r| r.0 < a.end && a.end <= r.1);
                if !inside_start || !inside_end {
                    let sig = if gap_splits_char { "C13:split_multibyte_char" } else if has_empty { "C13:position:end_with_empty_range" } else { "C13:leaf_outside_ranges" };
                    ctx.fail(sig, format!("leaf #{i} {} {}..{} does not start and end inside included ranges\n{hdr}\nranged={}", x1.path_kinds(i, l), a.start, a.end, x1.render(l, 80)));
                    if !ctx.is_known(sig) {
                        return;
                    }
                }
            }
        }
        let nt = rs.len() >= 2 && (gap_splits_token || rs.windows(2).any(|w| w[0].1 < w[1].0 && text.point_of(w[0].1.min(len)).row == text.point_of(w[1].0.min(len)).row)) && x1.len() >= 5;
        ctx.out.nontrivial = nt;
        ctx.out.hash = fnv(format!("{lname}|{:?}|{:?}", b, rs).as_bytes());
        if ctx.want_sample {
            ctx.out.sample = json!({"lang": lname, "ranges": rs, "text": show_bytes(b, 160), "concat": show_bytes(&ctext.bytes, 120), "nodes": x1.len()});
        }
        let _ = Point { row: 0, column: 0 };
    }
}
