//! C08: trees are persistent values: copies are isolated and safe across threads.
use crate::checks::c07;
use crate::core::{Check, Ctx, Tier};
use crate::gen::doc::{self, DocClass};
use crate::gen::edits::EditGen;
use crate::lang::{self, Lang};
use crate::model::text::{show_bytes, Text};
use crate::model::xtree::{xtree_diff, EqOpts, XTree};
use crate::tape::{fnv, Tape};
use serde_json::json;
use std::sync::{Arc, Barrier};
use streaming_iterator::StreamingIterator;
use tree_sitter::{Parser, Query, QueryCursor, Tree};

pub struct C08 {
    /// threaded part only (used for the ThreadSanitizer build)
    pub threads_only: bool,
}

const LANGS: &[&str] = &["mini", "json", "arith", "indent", "heredoc", "alias"];

struct Handle {
    tree: Tree,
    text: Text,
    snap: XTree,
    born: String,
}

fn snapshot_ok(h: &Handle) -> Option<String> {
    let now = XTree::build(&h.tree);
    xtree_diff(&now, &h.snap, EqOpts::SNAPSHOT).map(|(i, _, d)| format!("node #{i}: {d}"))
}

/// the per-thread (and sequentially replayed) operation sequence on one clone; returns result hashes
fn thread_program(lang: &'static Lang, start: &Tree, text0: &Text, sub: &[u8], query: Option<&Query>) -> Vec<u64> {
    let mut t = Tape::new(sub);
    let mut parser = Parser::new();
    parser.set_language(&lang.language).unwrap();
    let mut tree = start.clone();
    let mut text = text0.clone();
    let mut out = vec![];
    let mut eg = EditGen::new();
    let mut extra: Vec<Tree> = vec![];
    let n = 3 + t.below(10);
    for _ in 0..n {
        match t.weighted(&[35, 30, 12, 10, 8, 5]) {
            0 => {
                let ge = eg.next(lang, &text, &mut t);
                let ie = text.apply(&ge.edit);
                tree.edit(&ie);
                out.push(XTree::build(&tree).structure_hash());
            }
            1 => {
                if let Some(nt) = parser.parse(&text.bytes, Some(&tree)) {
                    // keep the old one around for a while: more sharing
                    let old = std::mem::replace(&mut tree, nt);
                    extra.push(old);
                    if extra.len() > 2 {
                        extra.remove(0);
                    }
                    out.push(XTree::build(&tree).structure_hash());
                }
            }
            2 => {
                if let Some(q) = query {
                    let mut c = QueryCursor::new();
                    let mut k = 0u64;
                    let mut ms = c.matches(q, tree.root_node(), text.bytes.as_slice());
                    while let Some(m) = ms.next() {
                        k = k.wrapping_mul(31).wrapping_add(m.pattern_index as u64 + m.captures.len() as u64);
                    }
                    out.push(k);
                }
            }
            3 => {
                let mut c = tree.walk();
                let mut k = 0u64;
                let mut steps = 0;
                loop {
                    k = k.wrapping_mul(131).wrapping_add(c.node().kind_id() as u64 + c.node().start_byte() as u64);
                    steps += 1;
                    if steps > 4000 {
                        break;
                    }
                    if c.goto_first_child() || c.goto_next_sibling() {
                        continue;
                    }
                    let mut up = false;
                    while c.goto_parent() {
                        if c.goto_next_sibling() {
                            up = true;
                            break;
                        }
                    }
                    if !up {
                        break;
                    }
                }
                out.push(k);
            }
            4 => {
                let c = tree.clone();
                extra.push(c);
                if extra.len() > 2 {
                    extra.remove(0);
                }
            }
            _ => {
                extra.clear();
                std::thread::yield_now();
            }
        }
        if t.pct(30) {
            std::thread::yield_now();
        }
    }
    out
}

impl Check for C08 {
    fn id(&self) -> &'static str {
        if self.threads_only {
            "C08T"
        } else {
            "C08"
        }
    }
    fn rule(&self) -> String {
        "two kinds of case. (a) sequential family history: one initial parse (sentences, mutated sentences, long repeats that are re-balanced in place on re-parse) and 10-60 operations over a growing set of handles: clone(h), edit(h) with a generated edit, h' = re-parse with old tree h (h itself is kept), query/walk(h), drop(h); the model maps each handle to the explicit tree (ranges, flags, has_changes, has_error) taken when the handle was created or last edited THROUGH THAT HANDLE, and after EVERY operation every live handle must still equal its snapshot. (b) threaded: 2, 3, 4, 8 or 16 threads behind a barrier, each with its own parser and its own clone of one tree, run a tape-chosen program (edit, re-parse keeping old trees alive, query, cursor walk, clone, drop, yield); each thread's sequence of result hashes must equal the sequential replay of the same program, and after all handles are gone the counting allocator must be balanced (nothing live, no unknown free). In the ThreadSanitizer build (report_atomic_races=0) any TSan report kills the worker = violation. evaluations = operations checked (a) / thread programs compared (b). Non-trivial: (a) >= 2 live handles sharing >= 100 node ids with >= 1 edit and >= 1 re-parse on a shared ancestor; (b) >= 2 threads that each edit and re-parse clones sharing >= 100 nodes; distinct by hash(language, text, operations).".into()
    }
    fn cases(&self, tier: Tier) -> u64 {
        match (tier, self.threads_only) {
            (Tier::Quick, false) => 5_000,
            (Tier::Thorough, false) => 40_000,
            (Tier::Quick, true) => 250,
            (Tier::Thorough, true) => 2_000,
        }
    }
    fn langs(&self) -> Vec<&'static str> {
        LANGS.to_vec()
    }
    fn floors(&self) -> Vec<(&'static str, f64)> {
        if self.threads_only {
            vec![("threads>=8", 0.15)]
        } else {
            vec![("kind:family", 0.5), ("kind:threads", 0.15), ("family:sharing>=100", 0.15)]
        }
    }
    fn jobs(&self) -> Option<usize> {
        // threaded cases spawn up to 16 threads themselves
        Some(if self.threads_only { 3 } else { 8 })
    }
    fn run_case(&self, ctx: &mut Ctx, t: &mut Tape) {
        c07::install_allocator();
        c07::live_clear();
        let _ = c07::take_unknown_frees();
        let lname = LANGS[t.weighted(&[30, 15, 12, 16, 10, 17])];
        let lang = lang::zoo(lname);
        let class = match t.weighted(&[40, 20, 40]) {
            0 => DocClass::Sentence,
            1 => DocClass::Mutated,
            _ => DocClass::Huge,
        };
        let mut bytes = doc::gen_doc(lang, class, t);
        if bytes.len() > 40_000 {
            bytes.truncate(40_000);
        }
        let text0 = Text::new(bytes);
        ctx.label(format!("lang:{lname}"));
        let threaded = self.threads_only || t.pct(25);
        let mut log: Vec<String> = vec![];
        if !threaded {
            ctx.label("kind:family");
            let mut parser = Parser::new();
            parser.set_language(&lang.language).unwrap();
            let tree = match parser.parse(&text0.bytes, None) {
                Some(t) => t,
                None => {
                    ctx.discard("no tree");
                    return;
                }
            };
            let snap = XTree::build(&tree);
            let mut hs: Vec<Handle> = vec![Handle { tree, text: text0.clone(), snap, born: "initial parse".into() }];
            let n_ops = 10 + t.below(if ctx.tier == Tier::Quick { 30 } else { 50 });
            let mut eg = EditGen::new();
            let mut did_edit = false;
            let mut did_reparse = false;
            let mut max_shared = 0usize;
            for step in 0..n_ops {
                if hs.is_empty() {
                    break;
                }
                let hi = t.below(hs.len());
                let op = t.weighted(&[22, 26, 24, 10, 18]);
                match op {
                    0 => {
                        let c = hs[hi].tree.clone();
                        let h = Handle { tree: c, text: hs[hi].text.clone(), snap: hs[hi].snap.clone(), born: format!("clone of h{hi} at step {step}") };
                        hs.push(h);
                        log.push(format!("clone h{hi}"));
                    }
                    1 => {
                        let ge = eg.next(lang, &hs[hi].text, t);
                        let ie = hs[hi].text.apply(&ge.edit);
                        hs[hi].tree.edit(&ie);
                        hs[hi].snap = XTree::build(&hs[hi].tree);
                        did_edit = true;
                        log.push(format!("edit h{hi} {}..{} -> {:?}", ge.edit.start, ge.edit.old_end, show_bytes(&ge.edit.inserted, 20)));
                    }
                    2 => {
                        // re-parse with h as the old tree; h stays alive and must not change
                        let nt = parser.parse(&hs[hi].text.bytes, Some(&hs[hi].tree));
                        if let Some(nt) = nt {
                            let snap = XTree::build(&nt);
                            let shared = {
                                let ids = hs[hi].snap.ids();
                                snap.nodes.iter().filter(|n| ids.contains(&n.id)).count()
                            };
                            max_shared = max_shared.max(shared);
                            let text = hs[hi].text.clone();
                            hs.push(Handle { tree: nt, text, snap, born: format!("re-parse of h{hi} at step {step}") });
                            did_reparse = true;
                            log.push(format!("reparse old=h{hi} (shares {shared} nodes)"));
                        }
                    }
                    3 => {
                        // read-only use
                        let mut c = hs[hi].tree.walk();
                        let mut k = 0;
                        while (c.goto_first_child() || c.goto_next_sibling()) && k < 500 {
                            k += 1;
                        }
                        let _ = hs[hi].tree.root_node().to_sexp();
                        log.push(format!("walk h{hi}"));
                    }
                    _ => {
                        hs.remove(hi);
                        log.push(format!("drop h{hi}"));
                    }
                }
                if hs.len() > 7 {
                    let k = t.below(hs.len());
                    hs.remove(k);
                    log.push(format!("drop h{k}"));
                }
                ctx.out.inner += 1;
                // invariant: every live handle equals its snapshot
                for (k, h) in hs.iter().enumerate() {
                    if let Some(d) = snapshot_ok(h) {
                        ctx.fail(
                            "C08:handle_changed_by_other_operation",
                            format!("after step {step} ({}), handle h{k} ({}) no longer equals the snapshot taken when it was created/edited: {d}\nlang={lname} ops={:?}\ninitial text={:?}", log.last().unwrap(), h.born, log, show_bytes(&text0.bytes, 200)),
                        );
                        return;
                    }
                }
            }
            ctx.label_if(max_shared >= 100, "family:sharing>=100");
            ctx.out.nontrivial = did_edit && did_reparse && max_shared >= 100;
            drop(hs);
            drop(parser);
        } else {
            ctx.label("kind:threads");
            let nthreads = *t.pick(&[2usize, 2, 3, 4, 8, 16]);
            ctx.label_if(nthreads >= 8, "threads>=8");
            let mut parser = Parser::new();
            parser.set_language(&lang.language).unwrap();
            let tree = match parser.parse(&text0.bytes, None) {
                Some(t) => t,
                None => {
                    ctx.discard("no tree");
                    return;
                }
            };
            drop(parser);
            let query: Option<Arc<Query>> = Query::new(&lang.language, "(_) @a").ok().map(Arc::new);
            let subs: Vec<Vec<u8>> = (0..nthreads).map(|_| t.bytes(96)).collect();
            let nodes = tree.root_node().descendant_count();
            let barrier = Arc::new(Barrier::new(nthreads));
            let text_arc = Arc::new(text0.clone());
            let mut joins = vec![];
            for k in 0..nthreads {
                let clone = tree.clone();
                let b = barrier.clone();
                let sub = subs[k].clone();
                let txt = text_arc.clone();
                let q = query.clone();
                joins.push(std::thread::spawn(move || {
                    b.wait();
                    let r = thread_program(lang, &clone, &txt, &sub, q.as_deref());
                    drop(clone);
                    r
                }));
            }
            let results: Vec<Vec<u64>> = joins.into_iter().map(|j| j.join().unwrap_or_default()).collect();
            // sequential replay
            for k in 0..nthreads {
                let clone = tree.clone();
                let r = thread_program(lang, &clone, &text0, &subs[k], query.as_deref());
                ctx.out.inner += 1;
                if r != results[k] {
                    ctx.fail("C08:threaded_result_differs_from_sequential", format!("thread {k} of {nthreads}: result hashes {:?} but the sequential replay of the same program gives {:?}\nlang={lname} text={:?}", results[k], r, show_bytes(&text0.bytes, 200)));
                    return;
                }
            }
            log.push(format!("{nthreads} threads x program on a tree of {nodes} nodes"));
            ctx.out.nontrivial = nthreads >= 2 && nodes >= 100;
            drop(tree);
            drop(query);
        }
        // allocation balance
        let unknown = c07::take_unknown_frees();
        if unknown > 0 {
            ctx.fail("C08:free_of_unknown_pointer", format!("{unknown} free/realloc call(s) named a pointer that is not live (freed twice?); ops={:?}", log));
        }
        let (n, bytes) = c07::live_summary();
        if n > 0 {
            ctx.fail("C08:leak_after_last_handle", format!("{n} allocations ({bytes} bytes) still live after every handle was dropped; ops={:?}", log));
            c07::live_clear();
        }
        ctx.out.hash = fnv(format!("{lname}|{:?}|{:?}", text0.bytes, log).as_bytes());
        if ctx.want_sample {
            ctx.out.sample = json!({"lang": lname, "class": class.name(), "ops": log.iter().take(30).collect::<Vec<_>>(), "text": show_bytes(&text0.bytes, 100)});
        }
    }
}
