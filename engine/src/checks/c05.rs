//! C05: query results are exactly the matches the pattern semantics define.
use crate::core::{Check, Ctx, Tier};
use crate::gen::doc;
use crate::gen::edits::EditGen;
use crate::gen::query::{self, GenCfg, Item, PatGen, QueryAst};
use crate::lang::{self, Lang};
use crate::model::qmatch::{Binding, Matcher};
use crate::model::text::{show_bytes, Text};
use crate::model::xtree::{kind_name, XTree};
use crate::tape::{fnv, Tape};
use serde_json::json;
use std::collections::{BTreeMap, BTreeSet, HashMap};
use streaming_iterator::StreamingIterator;
use tree_sitter::{Parser, Query, QueryCursor, Tree};

pub struct C05;

pub const QLANGS: &[&str] = &["mini", "arith", "json", "glr"];

/// small document + tree for query work: (text, tree, was edited-and-reparsed)
pub fn small_tree(lang: &Lang, t: &mut Tape, max_nodes: usize) -> Option<(Text, Tree, &'static str)> {
    let mut parser = Parser::new();
    parser.set_language(&lang.language).unwrap();
    let budget = 3 + t.below(22) as u32;
    let toks = doc::sentence_tokens(lang, t, budget);
    let mode = t.weighted(&[55, 25, 20]);
    let mut bytes = doc::render(lang, &toks, t);
    let mut how = "valid";
    if mode == 1 {
        // damage
        let lits = doc::literals_of(lang);
        let k = 1 + t.below(2);
        for _ in 0..k {
            if bytes.is_empty() {
                break;
            }
            let i = t.below(bytes.len());
            match t.below(3) {
                0 => {
                    bytes.remove(i);
                }
                1 => {
                    if !lits.is_empty() {
                        let l = t.pick(&lits).clone();
                        for (j, b) in l.bytes().enumerate() {
                            bytes.insert(i + j, b);
                        }
                    }
                }
                _ => bytes.insert(i, *t.pick(b"(){};,\"@")),
            }
        }
        how = "erroneous";
    }
    let mut text = Text::new(bytes);
    let mut tree = parser.parse(&text.bytes, None)?;
    if mode == 2 {
        let mut eg = EditGen::new();
        for _ in 0..1 + t.below(2) {
            let ge = eg.next(lang, &text, t);
            let ie = text.apply(&ge.edit);
            tree.edit(&ie);
        }
        tree = parser.parse(&text.bytes, Some(&tree))?;
        how = "edited_and_reparsed";
    }
    if tree.root_node().descendant_count() > max_nodes {
        return None;
    }
    Some((text, tree, how))
}

/// the runtime starts wildcard-rooted patterns with children from the first child step (an optimisation)
pub fn is_wildcard_root_with_children(it: &Item) -> bool {
    matches!(&it.pat, query::Pat::Node { kind: query::Kind::WildNamed | query::Kind::Wild | query::Kind::Super(_, None), children, .. } if !children.is_empty())
}

fn mentions_kind(it: &Item, names: &[String]) -> bool {
    match &it.pat {
        query::Pat::Node { kind, children, .. } => {
            (match kind {
                query::Kind::Named(n) => names.iter().any(|x| x == n),
                _ => false,
            }) || children.iter().any(|c| mentions_kind(&c.item, names))
        }
        query::Pat::Alt(items) => items.iter().any(|x| mentions_kind(x, names)),
        query::Pat::Group(children, _) => children.iter().any(|c| mentions_kind(&c.item, names)),
    }
}

fn any_node(it: &Item, f: &dyn Fn(&query::Kind, &Vec<query::Child>, bool) -> bool) -> bool {
    match &it.pat {
        query::Pat::Node { kind, children, anchor_last, .. } => f(kind, children, *anchor_last) || children.iter().any(|c| any_node(&c.item, f)),
        query::Pat::Alt(items) => items.iter().any(|x| any_node(x, f)),
        query::Pat::Group(children, _) => children.iter().any(|c| any_node(&c.item, f)),
    }
}

fn child_has_children(c: &query::Child) -> bool {
    match &c.item.pat {
        query::Pat::Node { children, .. } => !children.is_empty(),
        query::Pat::Alt(items) => items.iter().any(|x| matches!(&x.pat, query::Pat::Node { children, .. } if !children.is_empty())),
        _ => true,
    }
}

/// discriminant for a lost match: which construct known to lose matches the pattern contains (priority order)
pub fn miss_signature(it: &Item, tree_err: bool) -> String {
    let mut feats = BTreeSet::new();
    query::item_features(it, &mut feats);
    let anchor = feats.contains("q:anchor");
    let s = if has_anon_wildcard(it) && anchor {
        "anon_wildcard_before_anchor"
    } else if has_bare_supertype(it) && anchor {
        "bare_supertype_before_anchor"
    } else if any_node(it, &|k, _, _| matches!(k, query::Kind::Missing(Some(_)))) {
        "missing_with_symbol"
    } else if any_node(it, &|_, ch, al| (1..ch.len()).any(|j| ch[j].anchor && child_has_children(&ch[j - 1])) || (al && ch.last().map(child_has_children).unwrap_or(false))) {
        "anchor_after_nested_sibling"
    } else if any_node(it, &|k, ch, al| matches!(k, query::Kind::WildNamed) && (al || ch.iter().any(|c| c.anchor))) {
        "wildcard_parent_with_anchored_children"
    } else if any_node(it, &|k, ch, al| matches!(k, query::Kind::Error) && (al || ch.iter().any(|c| c.anchor))) {
        "error_parent_with_anchored_children"
    } else if any_node(it, &|k, ch, _| matches!(k, query::Kind::Error) && !ch.is_empty()) {
        "error_pattern_with_children"
    } else if any_node(it, &|_, ch, al| (0..ch.len()).any(|j| matches!(&ch[j].item.pat, query::Pat::Node { kind: query::Kind::Error, .. }) && ((j + 1 < ch.len() && ch[j + 1].anchor) || (j + 1 == ch.len() && al) || ch[j].anchor))) {
        "anchor_next_to_error_sibling"
    } else if tree_err {
        "erroneous_tree"
    } else {
        ""
    };
    if s.is_empty() {
        "C05:completeness:missing".to_string()
    } else {
        format!("C05:completeness:missing:{s}")
    }
}

/// a wildcard child that the next sibling (or the end of the parent) is anchored to
pub fn wildcard_child_before_anchor(it: &Item) -> bool {
    let is_wild = |c: &query::Child| matches!(&c.item.pat, query::Pat::Node { kind: query::Kind::Wild | query::Kind::WildNamed | query::Kind::Super(_, None), .. });
    any_node(it, &|_, ch, al| (0..ch.len()).any(|j| is_wild(&ch[j]) && ((j + 1 < ch.len() && ch[j + 1].anchor) || (j + 1 == ch.len() && al))))
}

/// A repeated (`+`/`*`) wildcard, alternation or group makes the engine keep one state per way of assigning the
/// siblings to the repetitions: on a node with many children that is exponential (a single step can take minutes and
/// the progress callback is only consulted between steps). Such (query, tree) pairs are not executed.
pub fn may_explode(it: &Item, xt: &XTree) -> bool {
    fn repeated_loose(it: &Item) -> bool {
        let rep = matches!(it.quant, query::Quant::Star | query::Quant::Plus);
        let loose = match &it.pat {
            query::Pat::Node { kind, .. } => matches!(kind, query::Kind::Wild | query::Kind::WildNamed | query::Kind::Super(_, None)),
            query::Pat::Alt(_) | query::Pat::Group(_, _) => true,
        };
        if rep && loose {
            return true;
        }
        match &it.pat {
            query::Pat::Node { children, .. } => children.iter().any(|c| repeated_loose(&c.item)),
            query::Pat::Alt(items) => items.iter().any(repeated_loose),
            query::Pat::Group(children, _) => children.iter().any(|c| repeated_loose(&c.item)),
        }
    }
    repeated_loose(it) && xt.nodes.iter().any(|n| n.children.len() > 12)
}

fn has_bare_supertype(it: &Item) -> bool {
    match &it.pat {
        query::Pat::Node { kind, children, .. } => matches!(kind, query::Kind::Super(_, None)) || children.iter().any(|c| has_bare_supertype(&c.item)),
        query::Pat::Alt(items) => items.iter().any(has_bare_supertype),
        query::Pat::Group(children, _) => children.iter().any(|c| has_bare_supertype(&c.item)),
    }
}

fn has_anon_wildcard(it: &Item) -> bool {
    match &it.pat {
        query::Pat::Node { kind, children, .. } => matches!(kind, query::Kind::Wild) || children.iter().any(|c| has_anon_wildcard(&c.item)),
        query::Pat::Alt(items) => items.iter().any(has_anon_wildcard),
        query::Pat::Group(children, _) => children.iter().any(|c| has_anon_wildcard(&c.item)),
    }
}

pub struct Compiled {
    pub ast: QueryAst,
    pub src: String,
    pub origins: Vec<usize>,
    pub mutated: Vec<bool>,
}

pub fn gen_query(lang: &Lang, xt: &XTree, t: &mut Tape, rich: bool, allow_mutation: bool) -> Compiled {
    let mut pg = PatGen::new(lang, xt, GenCfg { rich, max_depth: 3 });
    let n_pat = 1 + t.weighted(&[60, 28, 12]);
    let mut patterns = vec![];
    let mut origins = vec![];
    let mut mutated = vec![];
    for _ in 0..n_pat {
        // prefer inner nodes
        let mut origin = t.below(xt.len());
        for _ in 0..3 {
            if !xt.nodes[origin].children.is_empty() {
                break;
            }
            origin = t.below(xt.len());
        }
        let mut it: Item = pg.from_node(t, origin, 0, true);
        let mut m = false;
        if allow_mutation && t.pct(22) {
            pg.mutate(t, &mut it);
            m = true;
        }
        patterns.push((it, vec![]));
        origins.push(origin);
        mutated.push(m);
    }
    let ast = QueryAst { patterns };
    let src = query::render_query(&ast);
    Compiled { ast, src, origins, mutated }
}

pub fn node_index(xt: &XTree) -> HashMap<(usize, usize, usize), usize> {
    let mut m = HashMap::new();
    for (i, n) in xt.nodes.iter().enumerate() {
        m.insert((n.id, n.start, n.end), i);
    }
    m
}

impl Check for C05 {
    fn id(&self) -> &'static str {
        "C05"
    }
    fn rule(&self) -> String {
        "case = zoo language (mini, arith, json, glr) x small tree (valid 55% / erroneous 25% / edited-and-re-parsed 20%, <= 300 nodes) x query of 1-3 patterns built as an AST (never parsed by me): abstraction of a real node of the tree (kind kept, generalised to (_), _ or supertype/subtype; ordered subset of children, recursively; fields; truthful anchors; negated fields; MISSING/ERROR; alternation with a decoy), 22% then mutated (random kind / field / duplicated child) so that impossible patterns occur; 35% of queries use quantifiers (soundness only). Oracle: own backtracking matcher over the explicit tree implementing the documented semantics. Soundness (all): every returned (pattern, capture bindings) is a reference match. Completeness (quantifier-free, exact supertype info): the returned multiset equals the reference set, each distinct binding exactly once. Compile: an unmutated pattern must compile and match its origin; a rejected query has its error offset inside the source and (on error-free trees) no reference match. evaluations = patterns judged. Non-trivial: compiled, >= 2 pattern nodes, reference set non-empty; distinct by hash(language, text, query).".into()
    }
    fn cases(&self, tier: Tier) -> u64 {
        match tier {
            Tier::Quick => 100_000,
            Tier::Thorough => 1_000_000,
        }
    }
    fn langs(&self) -> Vec<&'static str> {
        QLANGS.to_vec()
    }
    fn floors(&self) -> Vec<(&'static str, f64)> {
        vec![("q:anchor", 0.12), ("q:field", 0.20), ("q:negated_field", 0.03), ("q:alternation", 0.10), ("tree:erroneous", 0.12), ("query:rejected", 0.02), ("mode:completeness", 0.4)]
    }
    fn run_case(&self, ctx: &mut Ctx, t: &mut Tape) {
        let lname = QLANGS[t.weighted(&[45, 20, 17, 18])];
        let lang = lang::zoo(lname);
        let (text, tree, how) = match small_tree(lang, t, 300) {
            Some(x) => x,
            None => {
                ctx.discard("tree too large");
                return;
            }
        };
        let xt = XTree::build(&tree);
        let tree_err = tree.root_node().has_error();
        ctx.label(format!("lang:{lname}"));
        ctx.label(format!("tree:{how}"));
        ctx.label_if(tree_err, "tree:erroneous");
        let rich = t.pct(35);
        let q = gen_query(lang, &xt, t, rich, true);
        let mut feats = BTreeSet::new();
        for (it, _) in &q.ast.patterns {
            query::item_features(it, &mut feats);
        }
        for f in &feats {
            ctx.label(*f);
        }
        let hdr = format!("lang={lname} tree={how} text={:?}\nquery={:?}\ntree={}", show_bytes(&text.bytes, 300), q.src, xt.render(&lang.language, 120));
        if let Ok(p) = std::env::var("VERIF_DUMP_SRC") {
            let _ = std::fs::write(format!("{p}.txt"), &text.bytes);
            let _ = std::fs::write(format!("{p}.scm"), &q.src);
            let _ = std::fs::write(format!("{p}.lang"), lname);
        }
        let l = &lang.language;
        let has_quant = q.ast.patterns.iter().any(|(it, _)| query::item_has_quantifier(it));
        // reference sets
        let mut refs: Vec<Option<BTreeSet<Binding>>> = vec![];
        let mut inexact = false;
        for (it, _) in &q.ast.patterns {
            let mut m = Matcher::new(&xt, lang, 3000);
            let r = m.match_all(it);
            inexact |= m.inexact;
            refs.push(if m.truncated { None } else { Some(r) });
        }
        ctx.out.inner += q.ast.patterns.len() as u64;
        let query = match Query::new(l, &q.src) {
            Ok(qq) => qq,
            Err(e) => {
                ctx.label("query:rejected");
                if e.offset > q.src.len() {
                    ctx.fail("C05:compile:error_offset_outside_source", format!("error offset {} > source length {}: {e:?}\n{hdr}", e.offset, q.src.len()));
                    return;
                }
                // which patterns are rejected on their own?
                for (pi, (it, _)) in q.ast.patterns.iter().enumerate() {
                    let mut s = String::new();
                    query::render_item(it, &mut s);
                    if Query::new(l, &s).is_err() {
                        let has_ref = refs[pi].as_ref().map(|r| !r.is_empty()).unwrap_or(false);
                        if !tree_err && has_ref && !inexact {
                            let mut f = BTreeSet::new();
                            query::item_features(it, &mut f);
                            ctx.fail(
                                if mentions_kind(it, &lang.meta_strs("extras_named")) || {
                                    // ... or matches only because a wildcard binds an extra
                                    let mut m2 = crate::model::qmatch::Matcher::new(&xt, lang, 20_000);
                                    m2.skip_extras = true;
                                    m2.match_all(it).is_empty()
                                } {
                                    "C05:compile:rejected_matchable:extra_child"
                                } else if f.contains("q:alternation") || f.contains("q:quantifier") {
                                    "C05:compile:rejected_matchable:dead_alternative_or_optional"
                                } else {
                                    "C05:compile:rejected_matchable"
                                },
                                format!("pattern {pi} {:?} is rejected at compile time ({:?}) but the reference matcher finds {} match(es) in this error-free tree\n{hdr}", s, Query::new(l, &s).err().map(|e| (e.kind, e.message)), refs[pi].as_ref().unwrap().len()),
                            );
                            return;
                        }
                    }
                }
                ctx.out.hash = fnv(format!("{lname}|{:?}|{}", text.bytes, q.src).as_bytes());
                return;
            }
        };
        ctx.label("query:compiled");
        if q.ast.patterns.iter().any(|(it, _)| may_explode(it, &xt)) {
            ctx.discard("repeated wildcard/alternation over a node with more than 12 children");
            return;
        }
        // run
        let idx = node_index(&xt);
        let mut cursor = QueryCursor::new();
        let names: Vec<String> = query.capture_names().iter().map(|s| s.to_string()).collect();
        let mut got: Vec<BTreeMap<Binding, u32>> = vec![BTreeMap::new(); q.ast.patterns.len()];
        {
            let mut ms = cursor.matches(&query, tree.root_node(), text.bytes.as_slice());
            let mut n_matches = 0usize;
            while let Some(m) = ms.next() {
                n_matches += 1;
                if n_matches > 1500 {
                    // repeated alternations over long sibling lists yield exponentially many matches: not judged
                    ctx.discard("more than 1500 matches");
                    return;
                }
                let mut b: Binding = vec![];
                for c in m.captures {
                    let key = (c.node.id(), c.node.start_byte(), c.node.end_byte());
                    match idx.get(&key) {
                        Some(&i) => b.push((names[c.index as usize].clone(), i)),
                        None => {
                            ctx.fail("C05:capture_not_in_tree", format!("captured node {:?} was never visited by the walk\n{hdr}", c.node));
                            return;
                        }
                    }
                }
                b.sort();
                if m.pattern_index < got.len() {
                    *got[m.pattern_index].entry(b).or_insert(0) += 1;
                } else {
                    ctx.fail("C05:pattern_index_out_of_range", format!("pattern_index {}\n{hdr}", m.pattern_index));
                    return;
                }
            }
        }
        if cursor.did_exceed_match_limit() {
            ctx.label("limit_exceeded");
        }
        let show = |b: &Binding| -> String { b.iter().map(|(c, i)| format!("@{c}={}[{}..{}]", kind_name(l, xt.nodes[*i].kind_id), xt.nodes[*i].start, xt.nodes[*i].end)).collect::<Vec<_>>().join(" ") };
        let mut nontrivial = false;
        let complete_mode = !has_quant && !inexact && !cursor.did_exceed_match_limit();
        ctx.label(if complete_mode { "mode:completeness" } else { "mode:soundness_only" });
        for (pi, (it, _)) in q.ast.patterns.iter().enumerate() {
            let r = match &refs[pi] {
                Some(r) => r,
                None => {
                    ctx.label("reference_truncated");
                    continue;
                }
            };
            // soundness
            for (b, cnt) in &got[pi] {
                if !r.contains(b) {
                    let lacks_root = it.captures.first().map(|rc| !b.iter().any(|(c, _)| c == rc)).unwrap_or(false);
                    let sig = if is_wildcard_root_with_children(it) && lacks_root {
                        "C05:wildcard_root:match_without_root_capture"
                    } else if tree_err {
                        "C05:soundness:erroneous_tree"
                    } else {
                        "C05:soundness"
                    };
                    if ctx.is_known(sig) {
                        ctx.fail(sig, "");
                        continue;
                    }
                    ctx.fail(sig, format!("pattern {pi}: returned match {{{}}} is not a match by the reference semantics ({} reference matches)\n{hdr}", show(b), r.len()));
                    return;
                }
                if complete_mode && *cnt > 1 {
                    let mut df = BTreeSet::new();
                    query::item_features(it, &mut df);
                    let sig = if is_wildcard_root_with_children(it) {
                        "C05:wildcard_root:duplicate_matches"
                    } else if df.contains("q:alternation") {
                        "C05:completeness:duplicate:alternation_branches"
                    } else {
                        "C05:completeness:duplicate"
                    };
                    if ctx.is_known(sig) {
                        ctx.fail(sig, "");
                        continue;
                    }
                    ctx.fail(sig, format!("pattern {pi}: binding {{{}}} was returned {cnt} times\n{hdr}", show(b)));
                    return;
                }
            }
            if complete_mode {
                let mut feats = BTreeSet::new();
                query::item_features(it, &mut feats);
                for b in r {
                    if !got[pi].contains_key(b) {
                        // the runtime collapses a match whose captures are a strict subset of another match of the
                        // same pattern on the same root (alternation branches with fewer captures): accepted
                        let root_cap = it.captures.first();
                        let covered = got[pi].keys().any(|g| {
                            g.len() > b.len() && b.iter().all(|x| g.contains(x)) && root_cap.map(|rc| b.iter().filter(|(c, _)| c == rc).eq(g.iter().filter(|(c, _)| c == rc))).unwrap_or(true)
                        });
                        if covered {
                            ctx.count("collapsed_sub_binding");
                            continue;
                        }
                        let sig_s = miss_signature(it, tree_err);
                        let sig = sig_s.as_str();
                        if ctx.is_known(sig) {
                            ctx.fail(sig, "");
                            break;
                        }
                        ctx.fail(sig, format!("pattern {pi}: reference match {{{}}} was not returned ({} returned, {} expected)\n{hdr}", show(b), got[pi].len(), r.len()));
                        return;
                    }
                }
            } else if !q.mutated[pi] && !cursor.did_exceed_match_limit() {
                // the origin must be among the matches (root capture is the first capture of the pattern)
                if let Some(root_cap) = it.captures.first() {
                    let origin = q.origins[pi];
                    if !got[pi].keys().any(|b| b.iter().any(|(c, i)| c == root_cap && *i == origin)) && !inexact {
                        let mut feats = BTreeSet::new();
                        query::item_features(it, &mut feats);
                        let ms = miss_signature(it, false);
                        let sig_s = if ms == "C05:completeness:missing" { "C05:origin_not_matched".to_string() } else { ms };
                        let sig = sig_s.as_str();
                        if ctx.is_known(sig) {
                            ctx.fail(sig, "");
                            continue;
                        }
                        ctx.fail(sig, format!("pattern {pi} was abstracted from node #{origin} {} but no returned match binds its root there\n{hdr}", xt.path_kinds(origin, l)));
                        return;
                    }
                }
            }
            if query::item_size(it) >= 2 && !r.is_empty() {
                nontrivial = true;
            }
        }
        ctx.out.nontrivial = nontrivial;
        ctx.out.hash = fnv(format!("{lname}|{:?}|{}", text.bytes, q.src).as_bytes());
        if ctx.want_sample {
            ctx.out.sample = json!({"lang": lname, "tree": how, "text": show_bytes(&text.bytes, 120), "query": q.src, "matches": got.iter().map(|g| g.len()).collect::<Vec<_>>()});
        }
    }
}
