//! Validity predicate over a tree versus the text model (C02 items 2-8), shared with C07.
use crate::core::Ctx;
use crate::lang::Lang;
use crate::model::text::{show_bytes, Text};
use crate::model::xtree::{kind_name, XTree};
use tree_sitter::{Node, Range, Tree};

pub struct TreeFacts {
    pub nodes: usize,
    pub errors: usize,
    pub missing: usize,
    pub max_depth: u32,
    pub leaves: usize,
    pub zero_width: usize,
}

fn lit_set(lang: &Lang) -> &'static (Vec<String>, Vec<String>) {
    // (literals, alias values) per language, cached by name
    use std::collections::HashMap;
    use std::sync::{Mutex, OnceLock};
    static C: OnceLock<Mutex<HashMap<String, &'static (Vec<String>, Vec<String>)>>> = OnceLock::new();
    let m = C.get_or_init(|| Mutex::new(HashMap::new()));
    let mut g = m.lock().unwrap();
    if let Some(x) = g.get(&lang.name) {
        return x;
    }
    let lits = crate::gen::doc::literals_of(lang);
    let mut aliases = vec![];
    fn walk(v: &serde_json::Value, out: &mut Vec<String>) {
        match v {
            serde_json::Value::Object(o) => {
                if o.get("type").and_then(|x| x.as_str()) == Some("ALIAS") {
                    if let Some(s) = o.get("value").and_then(|x| x.as_str()) {
                        out.push(s.to_string());
                    }
                }
                for (_, x) in o {
                    walk(x, out);
                }
            }
            serde_json::Value::Array(a) => {
                for x in a {
                    walk(x, out);
                }
            }
            _ => {}
        }
    }
    walk(&lang.grammar["rules"], &mut aliases);
    let b: &'static (Vec<String>, Vec<String>) = Box::leak(Box::new((lits, aliases)));
    g.insert(lang.name.clone(), b);
    b
}

/// Checks items 2..8 of C02. `ranges`: included ranges the tree was parsed with (None = whole text).
/// `pfx` = signature prefix (e.g. "C02").
pub fn validate_tree(ctx: &mut Ctx, pfx: &str, lang: &Lang, tree: &Tree, text: &Text, ranges: Option<&[Range]>, stage: &str) -> (XTree, TreeFacts) {
    let root = tree.root_node();
    let (xt, handles) = XTree::build_nodes(root);
    let l = &lang.language;
    let len = text.len();
    let mut facts = TreeFacts { nodes: xt.len(), errors: 0, missing: 0, max_depth: 0, leaves: 0, zero_width: 0 };
    let (lits, aliases) = lit_set(lang);
    let word = lang.grammar["word"].as_str();
    let _ = word;
    let check_literals = !lang.meta_bool("no_literal_check");
    // subtree sizes + has-error reference, computed bottom-up (preorder indices => reverse order)
    let n = xt.len();
    let mut size = vec![1usize; n];
    let mut err_ref = vec![false; n];
    for i in (0..n).rev() {
        let x = &xt.nodes[i];
        let mut e = x.error || x.missing;
        let mut s = 1;
        for &c in &x.children {
            s += size[c];
            e |= err_ref[c];
        }
        size[i] = s;
        err_ref[i] = e;
    }
    let ctxmsg = |i: usize| -> String {
        let x = &xt.nodes[i];
        format!(
            "[{stage}] lang={} ranges={:?} node #{i} {} kind={:?} bytes {}..{} points {:?}..{:?}; text={:?}",
            lang.name,
            ranges.map(|r| r.iter().map(|x| (x.start_byte, x.end_byte)).collect::<Vec<_>>()),
            xt.path_kinds(i, l),
            kind_name(l, x.kind_id),
            x.start,
            x.end,
            x.sp,
            x.ep,
            show_bytes(&text.bytes, 300)
        )
    };
    let mut budget_nodes = 0usize;
    for i in 0..n {
        let x = &xt.nodes[i];
        facts.max_depth = facts.max_depth.max(x.depth);
        if x.error {
            facts.errors += 1;
        }
        if x.missing {
            facts.missing += 1;
        }
        if x.start == x.end {
            facts.zero_width += 1;
        }
        // item 2: inside text, points = position by counting newlines
        if !(x.start <= x.end && x.end <= len) {
            if ctx.fail(format!("{pfx}:range:outside_text"), ctxmsg(i)) {
                return (xt, facts);
            }
            continue;
        }
        let sp = text.point_of(x.start);
        let ep = text.point_of(x.end);
        // known deviation: a zero-width token produced exactly at the first byte of a later included range gets that
        // byte but the column of the previous range's end (mark_end moves the token back, the byte offset does not follow)
        let zw_at_range_start = |b: usize| -> bool {
            // ... and so does everything after it on the same row
            ranges
                .map(|r| {
                    r.iter().skip(1).any(|g| {
                        let gb = g.start_byte;
                        gb <= b && text.point_of(gb).row == text.point_of(b).row && xt.nodes.iter().any(|y| y.start == gb && y.end == gb && y.children.is_empty())
                    })
                })
                .unwrap_or(false)
        };
        if (sp.row, sp.column) != x.sp {
            let sfx = if zw_at_range_start(x.start) { ":zero_width_token_at_range_start" } else { "" };
            ctx.fail(format!("{pfx}:point:start{sfx}"), format!("expected start point {:?}; {}", (sp.row, sp.column), ctxmsg(i)));
        }
        if (ep.row, ep.column) != x.ep {
            let sfx = if zw_at_range_start(x.end) { ":zero_width_token_at_range_start" } else { "" };
            ctx.fail(format!("{pfx}:point:end{sfx}"), format!("expected end point {:?}; {}", (ep.row, ep.column), ctxmsg(i)));
        }
        // item 3: children ordered, disjoint, contained
        let mut prev_end = x.start;
        for (k, &c) in x.children.iter().enumerate() {
            let y = &xt.nodes[c];
            if y.start < prev_end {
                ctx.fail(format!("{pfx}:children:overlap_or_unordered"), format!("child {k} starts at {} before {prev_end}; {}", y.start, ctxmsg(i)));
            }
            if y.end > x.end || y.start < x.start {
                ctx.fail(format!("{pfx}:children:outside_parent"), format!("child {k} {}..{}; {}", y.start, y.end, ctxmsg(i)));
            }
            prev_end = prev_end.max(y.end);
        }
        // item 5: literal tokens cover exactly their string
        if check_literals && !x.named && !x.missing && !x.error && x.children.is_empty() {
            let k = kind_name(l, x.kind_id);
            if lits.iter().any(|s| s == k) && !aliases.iter().any(|s| s == k) {
                // with included ranges a token may bracket a gap: only the included bytes count
                let covered: Vec<u8> = match ranges {
                    None => text.bytes[x.start..x.end].to_vec(),
                    Some(rs) => (x.start..x.end).filter(|&b| rs.iter().any(|r| r.start_byte <= b && b < r.end_byte)).map(|b| text.bytes[b]).collect(),
                };
                if covered != k.as_bytes() {
                    ctx.fail(format!("{pfx}:literal:text_mismatch"), format!("covers {:?}; {}", show_bytes(&text.bytes[x.start..x.end], 60), ctxmsg(i)));
                }
            }
        }
        // item 6
        if x.missing && x.start != x.end {
            ctx.fail(format!("{pfx}:missing:nonempty"), ctxmsg(i));
        }
        // item 7
        if x.has_error != err_ref[i] {
            let shape = if x.error && x.children.is_empty() && !x.has_error {
                "error_leaf"
            } else if x.has_error {
                "spurious"
            } else {
                "unreported"
            };
            ctx.fail(format!("{pfx}:has_error:{shape}"), format!("has_error()={} but reference={}; {}", x.has_error, err_ref[i], ctxmsg(i)));
        }
        // item 8: counts (bounded work on huge nodes)
        let h: &Node = &handles[i];
        let cc = h.child_count() as usize;
        if cc != x.children.len() {
            ctx.fail(format!("{pfx}:count:child_count"), format!("child_count()={cc}, walk found {}; {}", x.children.len(), ctxmsg(i)));
        }
        let named = x.children.iter().filter(|&&c| xt.nodes[c].named).count();
        let ncc = h.named_child_count();
        if ncc != named {
            ctx.fail(format!("{pfx}:count:named_child_count"), format!("named_child_count()={ncc}, walk found {named}; {}", ctxmsg(i)));
        }
        let dc = h.descendant_count();
        if dc != size[i] {
            ctx.fail(format!("{pfx}:count:descendant_count"), format!("descendant_count()={dc}, walk found {}; {}", size[i], ctxmsg(i)));
        }
        if budget_nodes < 4000 {
            budget_nodes += 1;
            let kids = x.children.len();
            let idxs: Vec<usize> = if kids <= 24 { (0..kids).collect() } else { vec![0, 1, kids / 2, kids - 2, kids - 1] };
            for k in idxs {
                match h.child(k as u32) {
                    Some(c) => {
                        if c.id() != xt.nodes[x.children[k]].id || c.start_byte() != xt.nodes[x.children[k]].start {
                            ctx.fail(format!("{pfx}:count:child_index"), format!("child({k}) is not the {k}-th child of the walk; {}", ctxmsg(i)));
                        }
                    }
                    None => {
                        ctx.fail(format!("{pfx}:count:child_null"), format!("child({k}) is null though child_count()={cc}; {}", ctxmsg(i)));
                    }
                }
            }
            if h.child(cc as u32).is_some() {
                ctx.fail(format!("{pfx}:count:child_past_end"), format!("child(child_count()) is non-null; {}", ctxmsg(i)));
            }
            if named <= 24 {
                let mut k = 0;
                for &c in &x.children {
                    if xt.nodes[c].named {
                        match h.named_child(k as u32) {
                            Some(nc) if nc.id() == xt.nodes[c].id && nc.start_byte() == xt.nodes[c].start => {}
                            _ => {
                                ctx.fail(format!("{pfx}:count:named_child_index"), format!("named_child({k}) differs from the walk; {}", ctxmsg(i)));
                            }
                        }
                        k += 1;
                    }
                }
                if h.named_child(named as u32).is_some() {
                    ctx.fail(format!("{pfx}:count:named_child_past_end"), ctxmsg(i));
                }
            }
        }
        if ctx.out.fails.len() >= 8 {
            return (xt, facts);
        }
    }
    // item 4: tiling
    if !lang.meta_bool("no_tiling_check") {
        let skip = lang.skip_bytes();
        let mut covered = vec![false; len];
        for x in xt.leaves() {
            facts.leaves += 1;
            for b in covered.iter_mut().take(x.end.min(len)).skip(x.start) {
                *b = true;
            }
        }
        let in_ranges = |i: usize| -> bool {
            match ranges {
                None => true,
                Some(rs) => rs.iter().any(|r| r.start_byte <= i && i < r.end_byte),
            }
        };
        let bom = len >= 3 && &text.bytes[0..3] == b"\xef\xbb\xbf";
        for i in 0..len {
            if covered[i] || !in_ranges(i) {
                continue;
            }
            let b = text.bytes[i];
            if skip.contains(&b) {
                continue;
            }
            if bom && i < 3 {
                continue;
            }
            // a byte order mark cut by an included range or by an edit: the lexer decides about the mark from bytes
            // outside the range, and a re-parse keeps the old decision (known finding)
            let cut_bom = i < 3 && text.bytes[0] == 0xEF && ranges.is_some();
            ctx.fail(
                format!("{pfx}:tiling:uncovered{}", if cut_bom { ":cut_byte_order_mark" } else { "" }),
                format!(
                    "[{stage}] lang={} ranges={:?} byte {i} (0x{b:02x}) is in no leaf and is not skippable; text={:?}\ntree={}",
                    lang.name,
                    ranges.map(|r| r.iter().map(|x| (x.start_byte, x.end_byte)).collect::<Vec<_>>()),
                    show_bytes(&text.bytes, 300),
                    xt.render(l, 80)
                ),
            );
            break;
        }
    } else {
        facts.leaves = xt.leaves().count();
    }
    (xt, facts)
}
