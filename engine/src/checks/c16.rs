//! C16: node-types.json, symbol tables and look-ahead sets are sound for every tree.
use crate::checks::c03::{join_tokens, random_derivations};
use crate::core::{Check, Ctx, Tier};
use crate::gen::doc;
use crate::gen::grammar;
use crate::lang;
use crate::model::xtree::{kind_name, XTree};
use crate::tape::{fnv, Tape};
use serde_json::{json, Value};
use std::collections::{HashMap, HashSet};
use tree_sitter::{Language, Parser};
use tree_sitter_generate::OptLevel;

pub struct C16;

const ZOO: &[&str] = &["mini", "arith", "json", "alias", "indent", "heredoc", "tmpl", "glr"];

pub struct NodeTypes {
    entries: HashMap<(String, bool), Value>,
    /// supertype name -> direct subtypes
    subtypes: HashMap<String, Vec<(String, bool)>>,
}

impl NodeTypes {
    pub fn parse(text: &str) -> Result<NodeTypes, String> {
        let v: Value = serde_json::from_str(text).map_err(|e| e.to_string())?;
        let mut entries = HashMap::new();
        let mut subtypes = HashMap::new();
        for e in v.as_array().ok_or("node-types.json is not an array")? {
            let ty = e["type"].as_str().unwrap_or("").to_string();
            let named = e["named"].as_bool().unwrap_or(false);
            if let Some(st) = e.get("subtypes").and_then(|s| s.as_array()) {
                subtypes.insert(ty.clone(), st.iter().map(|x| (x["type"].as_str().unwrap_or("").to_string(), x["named"].as_bool().unwrap_or(false))).collect());
            }
            entries.insert((ty, named), e.clone());
        }
        Ok(NodeTypes { entries, subtypes })
    }
    fn allowed(&self, types: &Value, kind: &str, named: bool) -> bool {
        let mut stack: Vec<(String, bool)> = types.as_array().map(|a| a.iter().map(|x| (x["type"].as_str().unwrap_or("").to_string(), x["named"].as_bool().unwrap_or(false))).collect()).unwrap_or_default();
        let mut seen = HashSet::new();
        while let Some((t, n)) = stack.pop() {
            if t == kind && n == named {
                return true;
            }
            if !seen.insert((t.clone(), n)) {
                continue;
            }
            if let Some(sub) = self.subtypes.get(&t) {
                stack.extend(sub.iter().cloned());
            }
        }
        false
    }
}

/// conformance of one tree; returns the first problem
pub fn conforms(nt: &NodeTypes, xt: &XTree, l: &Language) -> Option<(String, String)> {
    let r = conforms_inner(nt, xt, l);
    // known-finding discriminant: the offending node is an aliased occurrence of the START rule
    r.map(|(sig, msg, i)| {
        let n = &xt.nodes[i];
        let is_start_alias = |k: usize| xt.nodes[k].grammar_id == xt.nodes[0].grammar_id && xt.nodes[k].kind_id != xt.nodes[k].grammar_id;
        if sig.contains("anonymous_alias_of_nonterminal") {
            (sig, msg)
        } else if is_start_alias(i) || n.children.iter().any(|&c| is_start_alias(c)) {
            (format!("{}:alias_of_start_rule", sig.split(":alias").next().unwrap_or(&sig)), msg)
        } else {
            (sig, msg)
        }
    })
}

fn conforms_inner(nt: &NodeTypes, xt: &XTree, l: &Language) -> Option<(String, String, usize)> {
    for (i, n) in xt.nodes.iter().enumerate() {
        if n.error || n.missing {
            continue;
        }
        let kind = kind_name(l, n.kind_id).to_string();
        let entry = match nt.entries.get(&(kind.clone(), n.named)) {
            Some(e) => e,
            None => return Some((if !n.named && !n.children.is_empty() { "C16:node_type_not_listed:anonymous_alias_of_nonterminal".into() } else { "C16:node_type_not_listed".into() }, format!("node #{i} {} (named={}) has no entry in node-types.json", xt.path_kinds(i, l), n.named), i)),
        };
        if !n.named {
            continue;
        }
        let mut by_field: HashMap<String, usize> = HashMap::new();
        let mut unnamed_children = 0usize;
        for &c in &n.children {
            let cx = &xt.nodes[c];
            if cx.extra {
                continue;
            }
            let ckind = kind_name(l, cx.kind_id);
            match cx.field.and_then(|f| l.field_name_for_id(f)) {
                Some(f) => {
                    *by_field.entry(f.to_string()).or_insert(0) += 1;
                    let spec = &entry["fields"][f];
                    if spec.is_null() {
                        return Some(("C16:field_not_listed".into(), format!("node #{i} {kind}: child {ckind} has field {f:?} which node-types.json does not list for {kind}"), i));
                    }
                    if !nt.allowed(&spec["types"], ckind, cx.named) {
                        return Some(("C16:field_child_type_not_allowed".into(), format!("node #{i} {kind}: field {f:?} holds a {ckind} (named={}) which its types {} do not allow", cx.named, spec["types"]), i));
                    }
                }
                None => {
                    if cx.named {
                        unnamed_children += 1;
                        let spec = &entry["children"];
                        if spec.is_null() {
                            return Some(("C16:children_not_listed".into(), format!("node #{i} {kind}: has a field-less named child {ckind} but node-types.json lists no 'children' for {kind}"), i));
                        }
                        if !nt.allowed(&spec["types"], ckind, cx.named) {
                            return Some(("C16:child_type_not_allowed".into(), format!("node #{i} {kind}: field-less child {ckind} is not among the allowed children types {}", spec["types"]), i));
                        }
                    }
                }
            }
        }
        if let Some(fields) = entry["fields"].as_object() {
            for (f, spec) in fields {
                let cnt = *by_field.get(f).unwrap_or(&0);
                if spec["required"].as_bool() == Some(true) && cnt == 0 {
                    return Some(("C16:required_field_absent".into(), format!("node #{i} {} {kind}: required field {f:?} has no child", xt.path_kinds(i, l)), i));
                }
                if spec["multiple"].as_bool() == Some(false) && cnt > 1 {
                    return Some(("C16:non_multiple_field_has_several".into(), format!("node #{i} {kind}: field {f:?} is not 'multiple' but holds {cnt} nodes"), i));
                }
            }
        }
        let ch = &entry["children"];
        if !ch.is_null() {
            if ch["required"].as_bool() == Some(true) && unnamed_children == 0 {
                return Some(("C16:required_children_absent".into(), format!("node #{i} {} {kind}: 'children' is required but there is no field-less named child", xt.path_kinds(i, l)), i));
            }
            if ch["multiple"].as_bool() == Some(false) && unnamed_children > 1 {
                return Some(("C16:non_multiple_children_has_several".into(), format!("node #{i} {kind}: 'children' is not 'multiple' but there are {unnamed_children}"), i));
            }
        }
    }
    None
}

impl Check for C16 {
    fn id(&self) -> &'static str {
        "C16"
    }
    fn rule(&self) -> String {
        "case = one grammar (zoo 35%; else a random grammar of the C03 generator: aliases, inlining, hidden rules, fields, repeats, supertypes in the operator family) with the node-types.json generated with it, and 40-150 error-free trees from random derivations / generated sentences. Oracles: (1) own conformance checker: every node's (type, named) is listed; every non-extra child lies under the field the cursor reports (or, if named and field-less, under 'children') with a type allowed directly or through nested supertypes; required => >= 1, not multiple => <= 1. (2) round-trips: node_kind_for_id(id_for_node_kind(name, named)) = name for every visible symbol; field_id_for_name(field_name_for_id(i)) = i. (3) look-ahead: for every leaf token of a fresh error-free parse (grammars without declared conflicts) the token's grammar symbol is yielded by lookahead_iterator(leaf.parse_state()) and next_state(state, symbol) = leaf.next_parse_state(); for every state the iterator terminates and yields distinct symbols below the symbol count. evaluations = trees checked. Non-trivial: tree with >= 1 field and >= 1 alias or supertype child; distinct by hash(grammar, text).".into()
    }
    fn cases(&self, tier: Tier) -> u64 {
        match tier {
            Tier::Quick => 900,
            Tier::Thorough => 12000,
        }
    }
    fn langs(&self) -> Vec<&'static str> {
        ZOO.to_vec()
    }
    fn floors(&self) -> Vec<(&'static str, f64)> {
        vec![("grammar:accepted", 0.6), ("trees:with_fields", 0.4), ("trees:with_alias_or_supertype", 0.3)]
    }
    fn watchdog_s(&self) -> u64 {
        300
    }
    fn run_case(&self, ctx: &mut Ctx, t: &mut Tape) {
        let zoo = t.pct(35);
        let mut texts: Vec<Vec<u8>> = vec![];
        let (gtext, gname, language, _keep): (String, String, Language, Option<lang::TempLang>) = if zoo {
            let n = *t.pick(ZOO);
            let z = lang::zoo(n);
            for _ in 0..40 {
                let mut b = doc::sentence(z, t);
                b.truncate(6000);
                texts.push(b);
            }
            ctx.label(format!("zoo:{n}"));
            (z.grammar_text.clone(), n.to_string(), z.language.clone(), None)
        } else {
            let name = format!("n{}", t.u16());
            let g = if t.pct(65) { grammar::gen_cfg(t, &name, false).0 } else { grammar::gen_op_grammar(t, &name).0 };
            let gtext = g.to_json();
            let tl = match lang::temp_lang(&gtext, OptLevel::default()) {
                Ok(l) => l,
                Err(_) => {
                    ctx.label("grammar:rejected");
                    return;
                }
            };
            let gjson: Value = serde_json::from_str(&gtext).unwrap();
            for d in random_derivations(&gjson, t, 150, 60) {
                texts.push(join_tokens(&d).0.into_bytes());
            }
            ctx.label("random_grammar");
            let l = tl.language.clone();
            (gtext, name, l, Some(tl))
        };
        ctx.label("grammar:accepted");
        let nt_text = match lang::node_types_json(&gtext) {
            Ok(x) => x,
            Err(e) => {
                ctx.fail("C16:node_types_generation_failed", e);
                return;
            }
        };
        if let Ok(d) = std::env::var("VERIF_DUMP") {
            let _ = std::fs::write(format!("{d}/grammar.json"), &gtext);
            let _ = std::fs::write(format!("{d}/node-types.json"), &nt_text);
        }
        let nt = match NodeTypes::parse(&nt_text) {
            Ok(n) => n,
            Err(e) => {
                ctx.fail("C16:node_types_not_json", e);
                return;
            }
        };
        let l = &language;
        let has_conflicts = serde_json::from_str::<Value>(&gtext).ok().and_then(|v| v["conflicts"].as_array().map(|a| !a.is_empty())).unwrap_or(false);
        // (2) round trips
        for id in 0..l.node_kind_count() as u16 {
            if !l.node_kind_is_visible(id) {
                continue;
            }
            if let Some(name) = l.node_kind_for_id(id) {
                let named = l.node_kind_is_named(id);
                let back = l.id_for_node_kind(name, named);
                let name2 = l.node_kind_for_id(back);
                if id != 0 && (name2 != Some(name) || l.node_kind_is_named(back) != named) {
                    ctx.fail("C16:symbol_name_roundtrip", format!("grammar {gname}: id {id} = {name:?} (named={named}) -> id_for_node_kind -> {back} = {:?}", name2));
                    return;
                }
            }
        }
        for f in 1..=l.field_count() as u16 {
            let name = l.field_name_for_id(f);
            let back = name.and_then(|n| l.field_id_for_name(n)).map(|x| x.get());
            if back != Some(f) {
                ctx.fail("C16:field_name_roundtrip", format!("grammar {gname}: field id {f} = {:?} -> field_id_for_name -> {:?}", name, back));
                return;
            }
        }
        // (3b) every state's iterator terminates with distinct, in-range symbols
        let nsym = l.node_kind_count();
        for s in 0..l.parse_state_count() as u16 {
            if let Some(it) = l.lookahead_iterator(s) {
                let mut seen = HashSet::new();
                let mut k = 0usize;
                for sym in it {
                    k += 1;
                    if k > nsym + 5 {
                        ctx.fail("C16:lookahead_iterator_does_not_terminate", format!("grammar {gname} state {s}"));
                        return;
                    }
                    if (sym as usize) >= nsym && sym != 65535 {
                        ctx.fail("C16:lookahead_symbol_out_of_range", format!("grammar {gname} state {s}: symbol {sym} >= {nsym}"));
                        return;
                    }
                    if !seen.insert(sym) {
                        ctx.fail("C16:lookahead_symbol_repeated", format!("grammar {gname} state {s}: symbol {sym} yielded twice"));
                        return;
                    }
                }
            } else {
                ctx.fail("C16:lookahead_iterator_null_for_valid_state", format!("grammar {gname} state {s}"));
                return;
            }
        }
        // trees
        let mut parser = Parser::new();
        parser.set_language(l).unwrap();
        let mut with_fields = false;
        let mut with_alias = false;
        let mut checked = 0;
        for tx in &texts {
            let tree = match parser.parse(tx, None) {
                Some(t) => t,
                None => continue,
            };
            if tree.root_node().has_error() {
                continue;
            }
            checked += 1;
            ctx.out.inner += 1;
            let (xt, hs) = XTree::build_nodes(tree.root_node());
            let f = xt.nodes.iter().any(|n| n.field.is_some());
            let a = xt.nodes.iter().any(|n| n.kind_id != n.grammar_id) || !l.supertypes().is_empty();
            with_fields |= f;
            with_alias |= a;
            if f && a {
                ctx.out.inner_hashes.push(fnv(&[gtext.as_bytes(), tx.as_slice()].concat()));
            }
            if let Some((sig, msg)) = conforms(&nt, &xt, l) {
                ctx.fail(sig, format!("{msg}\ngrammar={gname} text={:?}\ntree={}\nnode-types={}", String::from_utf8_lossy(&tx[..tx.len().min(200)]), xt.render(l, 60), &nt_text[..nt_text.len().min(1800)]));
                return;
            }
            // (3) look-ahead soundness on leaf tokens
            if !has_conflicts {
                for (i, n) in xt.nodes.iter().enumerate() {
                    if !n.children.is_empty() || n.missing || n.error || n.extra || n.end == n.start {
                        continue;
                    }
                    let h = hs[i];
                    let s = h.parse_state();
                    if (s as usize) >= l.parse_state_count() {
                        continue;
                    }
                    let sym = h.grammar_id();
                    let mut found = false;
                    if let Some(it) = l.lookahead_iterator(s) {
                        for x in it {
                            if x == sym {
                                found = true;
                                break;
                            }
                        }
                    }
                    if !found {
                        ctx.fail("C16:lookahead_misses_accepted_token", format!("grammar {gname}: leaf #{i} {} (grammar symbol {sym} = {:?}) was accepted in parse state {s}, but lookahead_iterator({s}) does not list it\ntext={:?}", xt.path_kinds(i, l), l.node_kind_for_id(sym), String::from_utf8_lossy(&tx[..tx.len().min(200)])));
                        return;
                    }
                    let ns = l.next_state(s, sym);
                    if ns != h.next_parse_state() {
                        ctx.fail("C16:next_state_disagrees", format!("grammar {gname}: leaf #{i}: next_state({s},{sym}) = {ns} but node.next_parse_state() = {}", h.next_parse_state()));
                        return;
                    }
                }
            }
        }
        ctx.label_if(with_fields, "trees:with_fields");
        ctx.label_if(with_alias, "trees:with_alias_or_supertype");
        ctx.out.nontrivial = with_fields && with_alias && checked > 0;
        ctx.out.hash = fnv(gtext.as_bytes());
        if ctx.want_sample {
            ctx.out.sample = json!({"grammar": gname, "zoo": zoo, "trees_checked": checked, "node_types_entries": nt.entries.len(), "states": l.parse_state_count(), "example_text": texts.first().map(|x| String::from_utf8_lossy(&x[..x.len().min(100)]).into_owned())});
        }
    }
}
