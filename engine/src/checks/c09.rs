//! C09: the tree is a pure function of language, text and included ranges (metamorphic drives).
use crate::core::{Check, Ctx, Tier};
use crate::drive::{self, Chunking};
use crate::gen::doc::{self, DocClass};
use crate::lang::{self, Lang};
use crate::model::text::{show_bytes, Text};
use crate::model::xtree::{xtree_diff, EqOpts, XTree};
use crate::tape::{fnv, Tape};
use serde_json::json;
use std::ops::ControlFlow;
use tree_sitter::{ParseOptions, Parser, Point, Tree};

pub struct C09;

const LANGS: &[&str] = &["mini", "indent", "heredoc", "json", "arith", "glr"];

fn fresh(lang: &Lang) -> Parser {
    let mut p = Parser::new();
    p.set_language(&lang.language).unwrap();
    p
}

/// does the chunking serve, at the start of some multi-byte character, fewer bytes than that character has?
pub fn splits_a_character(text: &[u8], chunk: &Chunking) -> bool {
    let s = match std::str::from_utf8(text) {
        Ok(s) => s,
        Err(_) => return text.iter().any(|b| *b >= 0x80) && chunk.is_chunked(),
    };
    for (i, ch) in s.char_indices() {
        let l = ch.len_utf8();
        if l > 1 {
            let served = match chunk {
                Chunking::Whole => text.len() - i,
                Chunking::Fixed(k) => (*k).min(text.len() - i),
                Chunking::Splits(v) => v.iter().copied().find(|&x| x > i).unwrap_or(text.len()).min(text.len()) - i,
            };
            if served < l {
                return true;
            }
        }
    }
    false
}

/// compare a drive's tree with the reference; UTF-16 trees are compared under the offset mapping
fn cmp(ctx: &mut Ctx, lang: &Lang, reference: &XTree, got: &Tree, sig: &str, what: &str, hdr: &str) -> bool {
    let g = XTree::build(got);
    if let Some((i, j, d)) = xtree_diff(&g, reference, EqOpts::FULL) {
        ctx.fail(
            sig.to_string(),
            format!(
                "{what}: tree differs from the reference drive at {} / {}: {d}\n{hdr}\n drive    ={}\n reference={}",
                g.path_kinds(i, &lang.language),
                reference.path_kinds(j, &lang.language),
                g.render(&lang.language, 100),
                reference.render(&lang.language, 100)
            ),
        );
        return false;
    }
    true
}

/// parse with cancellation at callback index k, then resume until done; returns (tree, number of cancellations)
fn parse_cancel_resume(parser: &mut Parser, text: &[u8], period: u64, first: u64) -> (Option<Tree>, u64) {
    let mut cancels = 0u64;
    let mut next_cancel = first;
    let mut total_calls = 0u64;
    loop {
        let mut calls_this = 0u64;
        let tree = {
            let mut read = |b: usize, _p: Point| -> &[u8] {
                if b >= text.len() {
                    &[]
                } else {
                    &text[b..]
                }
            };
            let mut progress = |_s: &tree_sitter::ParseState| -> ControlFlow<()> {
                total_calls += 1;
                calls_this += 1;
                if total_calls >= next_cancel {
                    return ControlFlow::Break(());
                }
                ControlFlow::Continue(())
            };
            let opts = ParseOptions::new().progress_callback(&mut progress);
            parser.parse_with_options(&mut read, None, Some(opts))
        };
        match tree {
            Some(t) => return (Some(t), cancels),
            None => {
                cancels += 1;
                next_cancel = total_calls + period.max(1);
                if cancels > 100_000 || calls_this == 0 {
                    return (None, cancels);
                }
            }
        }
    }
}

impl Check for C09 {
    fn id(&self) -> &'static str {
        "C09"
    }
    fn rule(&self) -> String {
        "case = zoo language x document (valid / erroneous / multi-byte / long repeats that trigger balancing) x a set of drives, each compared (explicit trees, all fields) with the reference drive = fresh parser, whole UTF-8 slice, no logger, no callback: (a) chunkings - for documents <= 48 bytes EVERY single split point, else fixed sizes and random splits incl. inside multi-byte characters; (b) UTF-16LE and UTF-16BE delivery of the same characters (offsets x2 / mapped, columns mapped); (c) a used parser: prefix history of other documents, other languages, ranges set and cleared, reset, cancelled parse + reset; (d) logger on; (e) cancellation by the progress callback at invocation index k (every k for small counts, sampled otherwise; repeated on resume) followed by resume, and cancel + reset + parse of the document. evaluations = drives compared. Non-trivial: >= 2 chunks really served, or a real cancellation, or a non-empty history; distinct by hash(language, text, drive).".into()
    }
    fn cases(&self, tier: Tier) -> u64 {
        match tier {
            Tier::Quick => 15_000,
            Tier::Thorough => 400_000,
        }
    }
    fn langs(&self) -> Vec<&'static str> {
        let mut v = LANGS.to_vec();
        v.push("tmpl");
        v
    }
    fn floors(&self) -> Vec<(&'static str, f64)> {
        vec![("drive:split_in_multibyte", 0.05), ("drive:cancel_during_balancing", 0.01), ("drive:utf16", 0.15), ("external_scanner", 0.20), ("drive:cancelled", 0.2), ("drive:history", 0.2)]
    }
    fn run_case(&self, ctx: &mut Ctx, t: &mut Tape) {
        let lname = LANGS[t.weighted(&[30, 18, 14, 14, 12, 12])];
        let lang = lang::zoo(lname);
        let class = match t.weighted(&[50, 30, 8, 12]) {
            0 => DocClass::Sentence,
            1 => DocClass::Mutated,
            2 => DocClass::Pathological,
            _ => DocClass::Huge,
        };
        let mut bytes = doc::gen_doc(lang, class, t);
        if class != DocClass::Huge && bytes.len() > 2500 {
            bytes.truncate(2500);
        }
        if bytes.len() > 120_000 {
            ctx.discard("too large");
            return;
        }
        let text = Text::new(bytes);
        let b = &text.bytes;
        ctx.label(format!("lang:{lname}"));
        ctx.label_if(matches!(lname, "indent" | "heredoc"), "external_scanner");
        let hdr = format!("lang={lname} class={} text={:?}", class.name(), show_bytes(b, 300));
        // reference drive
        let mut rp = fresh(lang);
        let rtree = match rp.parse(b, None) {
            Some(t) => t,
            None => {
                ctx.fail("C09:no_tree", hdr);
                return;
            }
        };
        let rx = XTree::build(&rtree);
        let ref_err = rtree.root_node().has_error();
        let mut nontrivial = false;
        let mut drives: Vec<String> = vec![];
        let mut nt = |ctx: &mut Ctx, d: &str| {
            ctx.out.inner_hashes.push(fnv(format!("{lname}|{:?}|{d}", b).as_bytes()));
        };
        // (a) chunkings
        let mut chunkings: Vec<Chunking> = vec![];
        if b.len() <= 48 && b.len() >= 2 {
            for s in 1..b.len() {
                chunkings.push(Chunking::Splits(vec![s]));
            }
            chunkings.push(Chunking::Fixed(1));
            ctx.label("drive:all_single_splits");
        } else {
            for _ in 0..3 {
                chunkings.push(Chunking::gen(t, b.len()));
            }
            // a split inside a multi-byte character, when there is one
            let inner: Vec<usize> = (1..b.len()).filter(|&i| b[i] & 0xC0 == 0x80).collect();
            if !inner.is_empty() {
                chunkings.push(Chunking::Splits(vec![*t.pick(&inner)]));
            }
        }
        for ch in &chunkings {
            if !ch.is_chunked() {
                continue;
            }
            let mut p = fresh(lang);
            let (tr, st) = drive::parse(&mut p, b, None, ch, None);
            ctx.out.inner += 1;
            let splits = splits_a_character(b, ch);
            ctx.label_if(splits, "drive:split_in_multibyte");
            let sig = if splits { "C09:chunking:split_inside_char" } else { "C09:chunking" };
            match tr {
                Some(tr) => {
                    if !cmp(ctx, lang, &rx, &tr, sig, &format!("chunking {}", ch.describe()), &hdr) && !ctx.is_known(sig) {
                        return;
                    }
                }
                None => {
                    ctx.fail("C09:no_tree", format!("chunking {}: {hdr}", ch.describe()));
                    return;
                }
            }
            if st.reads >= 2 {
                nontrivial = true;
                nt(ctx, &ch.describe());
            }
        }
        drives.push(format!("{} chunkings", chunkings.len()));
        // (b) UTF-16
        if let Ok(s) = std::str::from_utf8(b) {
            if t.pct(45) {
                ctx.label("drive:utf16");
                // offset tables
                let units: Vec<u16> = s.encode_utf16().collect();
                let mut map8to16 = vec![0usize; b.len() + 1];
                {
                    let mut u = 0usize;
                    for (i, ch) in s.char_indices() {
                        for k in 0..ch.len_utf8() {
                            map8to16[i + k] = u * 2;
                        }
                        u += ch.len_utf16();
                    }
                    map8to16[b.len()] = u * 2;
                }
                let text16 = {
                    // text model over the UTF-16LE bytes for points (columns in bytes)
                    let mut v = Vec::with_capacity(units.len() * 2);
                    for u in &units {
                        v.extend_from_slice(&u.to_le_bytes());
                    }
                    v
                };
                // expected tree: reference with mapped offsets; points: row same, column = mapped offset - mapped line start
                let mut expect = rx.clone();
                for n in expect.nodes.iter_mut() {
                    let ls = text.line_start(n.sp.0);
                    let le = text.line_start(n.ep.0);
                    n.sp = (n.sp.0, map8to16[n.start] - map8to16[ls]);
                    n.ep = (n.ep.0, map8to16[n.end] - map8to16[le]);
                    n.start = map8to16[n.start];
                    n.end = map8to16[n.end];
                }
                let _ = text16;
                for be in [false, true] {
                    let data: Vec<u16> = if be { units.iter().map(|u| u.to_be()).collect() } else { units.iter().map(|u| u.to_le()).collect() };
                    let chunk_units = *t.pick(&[usize::MAX, 1, 2, 3, 7, 64]);
                    let mut p = fresh(lang);
                    let mut read = |off: usize, _p: Point| -> &[u16] {
                        if off >= data.len() {
                            &[]
                        } else {
                            let e = off.saturating_add(chunk_units).min(data.len());
                            &data[off..e]
                        }
                    };
                    let tr = if be { p.parse_utf16_be_with_options(&mut read, None, None) } else { p.parse_utf16_le_with_options(&mut read, None, None) };
                    ctx.out.inner += 1;
                    // a chunk of one code unit can split a surrogate pair: same class as a split multi-byte character
                    // a chunk boundary between the two halves of a surrogate pair
                    let splits_pair = chunk_units != usize::MAX && units.iter().enumerate().any(|(k, u)| (0xD800..0xDC00).contains(u) && (k + 1) % chunk_units == 0);
                    let sig = if splits_pair { "C09:chunking:split_inside_char" } else if ref_err { "C09:utf16:erroneous_doc" } else if be { "C09:utf16be" } else { "C09:utf16le" };
                    match tr {
                        Some(tr) => {
                            if !cmp(ctx, lang, &expect, &tr, sig, &format!("UTF-16{} delivery, {} code units per chunk", if be { "BE" } else { "LE" }, chunk_units), &hdr) && !ctx.is_known(sig) {
                                return;
                            }
                        }
                        None => {
                            ctx.fail("C09:no_tree", format!("utf16: {hdr}"));
                            return;
                        }
                    }
                }
                drives.push("utf16le+be".into());
                nontrivial = true;
                nt(ctx, "utf16");
            }
        }
        // (c) used parser
        if t.pct(50) {
            ctx.label("drive:history");
            let mut p = Parser::new();
            let mut hist = vec![];
            let n = 1 + t.below(5);
            for _ in 0..n {
                match t.below(6) {
                    0 => {
                        let other = lang::zoo(LANGS[t.below(LANGS.len())]);
                        p.set_language(&other.language).unwrap();
                        let d = doc::gen_doc(other, DocClass::Mutated, t);
                        let _ = p.parse(&d, None);
                        hist.push(format!("parse {} bytes of {}", d.len(), other.name));
                    }
                    1 => {
                        p.set_language(&lang.language).unwrap();
                        let d = doc::gen_doc(lang, DocClass::Sentence, t);
                        let _ = p.parse(&d, None);
                        hist.push(format!("parse other {} document ({} bytes)", lname, d.len()));
                    }
                    2 => {
                        let r = crate::checks::c02::gen_ranges(t, &text);
                        if p.set_included_ranges(&r).is_ok() {
                            p.set_language(&lang.language).unwrap();
                            let _ = p.parse(b, None);
                            p.set_included_ranges(&[]).unwrap();
                            hist.push("ranges set, parse, ranges cleared".into());
                        }
                    }
                    3 => {
                        p.reset();
                        hist.push("reset".into());
                    }
                    4 => {
                        // cancelled parse of another document, then reset
                        p.set_language(&lang.language).unwrap();
                        let d = doc::gen_doc(lang, DocClass::Huge, t);
                        let (tr, st) = drive::parse(&mut p, &d, None, &Chunking::Whole, Some(1 + t.below(3) as u64));
                        hist.push(format!("parse of {} bytes cancelled={} ; reset", d.len(), st.cancelled && tr.is_none()));
                        p.reset();
                    }
                    _ => {
                        // cancelled parse of THIS document, then reset
                        p.set_language(&lang.language).unwrap();
                        let (tr, st) = drive::parse(&mut p, b, None, &Chunking::Whole, Some(t.below(4) as u64));
                        hist.push(format!("parse of this document cancelled={} ; reset", st.cancelled && tr.is_none()));
                        p.reset();
                    }
                }
            }
            p.set_language(&lang.language).unwrap();
            let with_logger = t.pct(30);
            if with_logger {
                p.set_logger(Some(Box::new(|_t, _m| {})));
                hist.push("logger on".into());
            }
            let tr = p.parse(b, None);
            ctx.out.inner += 1;
            match tr {
                Some(tr) => {
                    if !cmp(ctx, lang, &rx, &tr, "C09:history", &format!("used parser, history {:?}", hist), &hdr) {
                        return;
                    }
                }
                None => {
                    ctx.fail("C09:no_tree", format!("history {:?}: {hdr}", hist));
                    return;
                }
            }
            nontrivial = true;
            nt(ctx, &format!("{:?}", hist));
            drives.push(format!("history {:?}", hist));
        } else if t.pct(40) {
            // (d) logger only
            let mut p = fresh(lang);
            p.set_logger(Some(Box::new(|_t, _m| {})));
            if let Some(tr) = p.parse(b, None) {
                ctx.out.inner += 1;
                if !cmp(ctx, lang, &rx, &tr, "C09:logger", "logger on", &hdr) {
                    return;
                }
            }
        }
        // (e) cancellation + resume
        {
            let mut p = fresh(lang);
            let (_, st) = drive::parse(&mut p, b, None, &Chunking::Whole, None);
            let total = st.callbacks;
            if total >= 1 {
                let ks: Vec<u64> = if total <= 12 { (1..=total).collect() } else { (0..6).map(|_| 1 + t.below(total as usize) as u64).collect() };
                for k in ks {
                    let period = *t.pick(&[1u64, 2, 5, 1000, 1_000_000]);
                    let mut p = fresh(lang);
                    let (tr, cancels) = parse_cancel_resume(&mut p, b, period, k);
                    ctx.out.inner += 1;
                    let sig = if ref_err { "C09:cancel_resume:erroneous_doc" } else { "C09:cancel_resume" };
                    match tr {
                        Some(tr) => {
                            if cancels > 0 {
                                ctx.label("drive:cancelled");
                                nontrivial = true;
                                nt(ctx, &format!("cancel {k}/{period}"));
                                // the balancing phase runs after the last parse callback: a cancel index close to the total on a long repeat
                                ctx.label_if(class == DocClass::Huge && k * 10 >= total * 9, "drive:cancel_during_balancing");
                            }
                            if !cmp(ctx, lang, &rx, &tr, sig, &format!("cancelled at callback {k} (then every {period}), resumed; {cancels} cancellations of {total} callbacks"), &hdr) && !ctx.is_known(sig) {
                                return;
                            }
                        }
                        None => {
                            ctx.fail("C09:cancel_resume:no_progress", format!("resuming never finished (k={k}, period={period}); {hdr}"));
                            return;
                        }
                    }
                }
                // cancel, reset, parse again
                let mut p = fresh(lang);
                let k = 1 + t.below(total as usize) as u64;
                let (tr, st) = drive::parse(&mut p, b, None, &Chunking::Whole, Some(k.saturating_sub(1)));
                if tr.is_none() && st.cancelled {
                    p.reset();
                    if let Some(tr) = p.parse(b, None) {
                        ctx.out.inner += 1;
                        if !cmp(ctx, lang, &rx, &tr, "C09:cancel_reset", &format!("cancelled at callback {k}, reset, parsed again"), &hdr) {
                            return;
                        }
                    }
                }
                drives.push(format!("cancel/resume over {total} callbacks"));
            }
        }
        ctx.out.nontrivial = nontrivial;
        ctx.out.hash = fnv(format!("{lname}|{:?}", b).as_bytes());
        if ctx.want_sample {
            ctx.out.sample = json!({"lang": lname, "class": class.name(), "text": show_bytes(b, 160), "drives": drives});
        }
    }
}
