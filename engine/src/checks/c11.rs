//! C11: query cursor views agree: captures vs matches, ranges, limits, re-execution, remove, predicates.
use crate::checks::c05::{gen_query, node_index, small_tree, QLANGS};
use crate::core::{Check, Ctx, Tier};
use crate::gen::query::{self, PredArg, Predicate};
use crate::lang;
use crate::model::text::show_bytes;
use crate::model::xtree::XTree;
use crate::tape::{fnv, Tape};
use serde_json::json;
use std::collections::BTreeMap;
use streaming_iterator::StreamingIterator;
use tree_sitter::{Point, Query, QueryCursor};

pub struct C11;

/// a query that yields more matches than this on a tree of <= 300 nodes is a combinatorial explosion: discarded
const MATCH_CAP: usize = 1500;

/// one match: (pattern index, sorted [(capture index, node index)])
type M = (usize, Vec<(u32, usize)>);

fn multiset(v: &[M]) -> BTreeMap<M, u32> {
    let mut m = BTreeMap::new();
    for x in v {
        *m.entry(x.clone()).or_insert(0) += 1;
    }
    m
}

fn is_sub(a: &BTreeMap<M, u32>, b: &BTreeMap<M, u32>) -> bool {
    a.iter().all(|(k, c)| b.get(k).map(|d| d >= c).unwrap_or(false))
}

impl Check for C11 {
    fn id(&self) -> &'static str {
        "C11"
    }
    fn rule(&self) -> String {
        "case = zoo language x small tree (valid / erroneous / edited-and-re-parsed) x generated query (the C05 generator; 40% with text predicates #eq? #not-eq? #any-eq? #any-not-eq? #match? #not-match? #any-of? #not-any-of? over captures with strings drawn from the document) x cursor configuration (byte range, point range, containing byte/point range with boundaries at node starts/ends +-1, match limit 1..32, max_start_depth 0..6, re-execution after consuming k matches, fresh cursor). Relations: (1) multiset of (pattern, capture, node) in the capture stream = flattening of the match stream and capture starts are non-decreasing; (2) matches(range r) = unrestricted matches whose root intersects r, matches(containing r) = those whose root lies inside r; (3) re-executing the cursor and a fresh cursor give identical streams, also under a match limit after the cursor was abandoned part-way 1-4 times (captures or matches); (4) with a limit the matches are a sub-multiset and a difference implies did_exceed_match_limit(); (5) remove() on a match suppresses exactly its remaining captures; (6) the Rust iterators of the predicated query = matches of the predicate-free query filtered by an independent predicate evaluator; (7) max_start_depth d keeps exactly the matches whose root depth <= d. evaluations = relations checked. Non-trivial: >= 2 unrestricted matches and the configuration removes >= 1 but not all, or a predicate rejects >= 1 match; distinct by hash(language, text, query, configuration).".into()
    }
    fn cases(&self, tier: Tier) -> u64 {
        match tier {
            Tier::Quick => 80_000,
            Tier::Thorough => 800_000,
        }
    }
    fn langs(&self) -> Vec<&'static str> {
        QLANGS.to_vec()
    }
    fn floors(&self) -> Vec<(&'static str, f64)> {
        vec![("limit:exceeded", 0.05), ("cfg:containing", 0.12), ("with_predicates", 0.25), ("cfg:range", 0.2)]
    }
    fn run_case(&self, ctx: &mut Ctx, t: &mut Tape) {
        let lname = QLANGS[t.weighted(&[45, 20, 17, 18])];
        let lang = lang::zoo(lname);
        let (text, tree, how) = match small_tree(lang, t, 400) {
            Some(x) => x,
            None => {
                ctx.discard("tree too large");
                return;
            }
        };
        let xt = XTree::build(&tree);
        let l = &lang.language;
        let rich = t.pct(30);
        let mut q = gen_query(lang, &xt, t, rich, false);
        let src_plain = q.src.clone();
        // predicates (quantifier-free queries only, so every capture binds at most one node per match)
        let mut with_preds = false;
        if !rich && t.pct(55) {
            let words: Vec<String> = {
                let mut w: Vec<String> = xt.leaves().filter(|n| n.end > n.start && n.end - n.start < 12).filter_map(|n| std::str::from_utf8(&text.bytes[n.start..n.end]).ok().map(|s| s.to_string())).collect();
                w.sort();
                w.dedup();
                w.push("zzz".into());
                w
            };
            for (it, preds) in q.ast.patterns.iter_mut() {
                let caps = collect_caps(it);
                let paren_root = matches!(&it.pat, query::Pat::Node { kind, .. } if !matches!(kind, query::Kind::Wild | query::Kind::Anon(_)));
                if caps.is_empty() || !paren_root || !t.pct(70) {
                    continue;
                }
                let n = 1 + t.below(2);
                for _ in 0..n {
                    let c = t.pick(&caps).clone();
                    let op = *t.pick(&["eq?", "not-eq?", "any-eq?", "any-not-eq?", "match?", "not-match?", "any-of?", "not-any-of?"]);
                    let args = match op {
                        "eq?" | "not-eq?" | "any-eq?" | "any-not-eq?" => {
                            if t.pct(35) && caps.len() > 1 {
                                vec![PredArg::Capture(t.pick(&caps).clone())]
                            } else {
                                vec![PredArg::Str(t.pick(&words).clone())]
                            }
                        }
                        "match?" | "not-match?" => vec![PredArg::Str(t.pick(&["^[a-z]", "^.$", "[0-9]", "a", "^[a-zA-Z_]+$", "^$", "é"]).to_string())],
                        _ => (0..1 + t.below(3)).map(|_| PredArg::Str(t.pick(&words).clone())).collect(),
                    };
                    preds.push(Predicate { op: op.to_string(), capture: c, args });
                    with_preds = true;
                }
            }
            q.src = query::render_query(&q.ast);
        }
        ctx.label(format!("lang:{lname}"));
        ctx.label(format!("tree:{how}"));
        ctx.label_if(with_preds, "with_predicates");
        let hdr = format!("lang={lname} tree={how} text={:?}\nquery={:?}\ntree={}", show_bytes(&text.bytes, 300), q.src, xt.render(l, 100));
        if let Ok(p) = std::env::var("VERIF_DUMP_SRC") {
            let _ = std::fs::write(format!("{p}.txt"), &text.bytes);
            let _ = std::fs::write(format!("{p}.scm"), &q.src);
            let _ = std::fs::write(format!("{p}.lang"), lname);
        }
        let query_plain = match Query::new(l, &src_plain) {
            Ok(x) => x,
            Err(_) => {
                ctx.discard("query rejected");
                return;
            }
        };
        let query = if with_preds {
            match Query::new(l, &q.src) {
                Ok(x) => x,
                Err(e) => {
                    ctx.fail("C11:predicated_query_rejected", format!("{e:?}\n{hdr}"));
                    return;
                }
            }
        } else {
            Query::new(l, &src_plain).unwrap()
        };
        let wild_root = q.ast.patterns.iter().any(|(it, _)| crate::checks::c05::is_wildcard_root_with_children(it));
        let has_optional = q.ast.patterns.iter().any(|(it, _)| {
            let mut f = std::collections::BTreeSet::new();
            query::item_features(it, &mut f);
            f.contains("q:quantifier") || f.contains("q:alternation")
        });
        let has_wild_or_error = q.ast.patterns.iter().any(|(it, _)| {
            let mut f = std::collections::BTreeSet::new();
            query::item_features(it, &mut f);
            f.contains("q:wildcard") || f.contains("q:error") || f.contains("q:missing")
        });
        let idx = node_index(&xt);
        let root = tree.root_node();
        let bytes = text.bytes.as_slice();
        // helper: run matches with a configured cursor
        let collect = |cur: &mut QueryCursor, qq: &Query| -> Result<Vec<M>, String> {
            let mut out = vec![];
            let mut ms = cur.matches(qq, root, bytes);
            while let Some(m) = ms.next() {
                let mut caps = vec![];
                for c in m.captures {
                    match idx.get(&(c.node.id(), c.node.start_byte(), c.node.end_byte())) {
                        Some(&i) => caps.push((c.index, i)),
                        None => return Err(format!("captured node {:?} not in the walk", c.node)),
                    }
                }
                caps.sort();
                out.push((m.pattern_index, caps));
                if out.len() > MATCH_CAP {
                    return Err("EXPLOSION".into());
                }
            }
            Ok(out)
        };
        macro_rules! run {
            ($cur:expr, $q:expr) => {
                match collect($cur, $q) {
                    Ok(v) => v,
                    Err(e) if e == "EXPLOSION" => {
                        // repeated alternations over long sibling lists yield exponentially many matches: not judged
                        ctx.discard("more than 1500 matches");
                        return;
                    }
                    Err(e) => {
                        ctx.fail("C11:capture_not_in_tree", format!("{e}\n{hdr}"));
                        return;
                    }
                }
            };
        }
        if q.ast.patterns.iter().any(|(it, _)| crate::checks::c05::may_explode(it, &xt)) {
            ctx.discard("repeated wildcard/alternation over a node with more than 12 children");
            return;
        }
        // unrestricted reference stream (of the plain query)
        let mut c0 = QueryCursor::new();
        let m_plain = run!(&mut c0, &query_plain);
        if c0.did_exceed_match_limit() {
            ctx.discard("unlimited cursor exceeded its limit");
            return;
        }
        let root_cap_of: Vec<Option<u32>> = q.ast.patterns.iter().map(|(it, _)| it.captures.first().and_then(|n| query_plain.capture_index_for_name(n))).collect();
        let root_of = |m: &M| -> Option<usize> { root_cap_of.get(m.0).copied().flatten().and_then(|rc| m.1.iter().find(|(c, _)| *c == rc).map(|(_, i)| *i)) };
        let mut nontrivial = false;
        let mut cfg_desc: Vec<String> = vec![];
        // (6) predicates
        let m_all: Vec<M> = if with_preds {
            let mut c = QueryCursor::new();
            let got = run!(&mut c, &query);
            ctx.out.inner += 1;
            // evaluate predicates on the plain matches
            let names_plain: Vec<String> = query_plain.capture_names().iter().map(|s| s.to_string()).collect();
            let names_pred: Vec<String> = query.capture_names().iter().map(|s| s.to_string()).collect();
            let mut expect: Vec<M> = vec![];
            let mut undefined = false;
            for m in &m_plain {
                let preds = &q.ast.patterns[m.0].1;
                let text_of = |cap: &str| -> Option<Vec<&[u8]>> {
                    let ci = names_plain.iter().position(|n| n == cap)? as u32;
                    let v: Vec<&[u8]> = m.1.iter().filter(|(c, _)| *c == ci).map(|(_, i)| &bytes[xt.nodes[*i].start..xt.nodes[*i].end]).collect();
                    Some(v)
                };
                let mut keep = true;
                for p in preds {
                    let a = match text_of(&p.capture) {
                        Some(v) if !v.is_empty() => v,
                        _ => {
                            undefined = true;
                            continue;
                        }
                    };
                    let (negate, any, base) = match p.op.as_str() {
                        "eq?" => (false, false, "eq"),
                        "not-eq?" => (true, false, "eq"),
                        "any-eq?" => (false, true, "eq"),
                        "any-not-eq?" => (true, true, "eq"),
                        "match?" => (false, false, "match"),
                        "not-match?" => (true, false, "match"),
                        "any-of?" => (false, false, "anyof"),
                        "not-any-of?" => (true, false, "anyof"),
                        _ => (false, false, ""),
                    };
                    let test_one = |s: &[u8]| -> Option<bool> {
                        Some(match base {
                            "eq" => match &p.args[0] {
                                PredArg::Str(x) => s == x.as_bytes(),
                                PredArg::Capture(c2) => {
                                    let b = text_of(c2)?;
                                    if b.is_empty() {
                                        return None;
                                    }
                                    b.iter().all(|y| *y == s) || (any && b.iter().any(|y| *y == s))
                                }
                            },
                            "match" => match &p.args[0] {
                                PredArg::Str(x) => {
                                    let re = regex::bytes::Regex::new(x).unwrap();
                                    re.is_match(s)
                                }
                                _ => false,
                            },
                            _ => p.args.iter().any(|x| matches!(x, PredArg::Str(v) if v.as_bytes() == s)),
                        })
                    };
                    let mut results = vec![];
                    for s in &a {
                        match test_one(s) {
                            Some(r) => results.push(r != negate),
                            None => undefined = true,
                        }
                    }
                    if results.is_empty() {
                        continue;
                    }
                    let ok = if any { results.iter().any(|x| *x) } else { results.iter().all(|x| *x) };
                    if !ok {
                        keep = false;
                    }
                }
                if keep {
                    // translate capture indices plain -> predicated query
                    let mut caps: Vec<(u32, usize)> = m.1.iter().map(|(c, i)| (names_pred.iter().position(|n| *n == names_plain[*c as usize]).unwrap_or(9999) as u32, *i)).collect();
                    caps.sort();
                    expect.push((m.0, caps));
                }
            }
            if !undefined {
                let a = multiset(&got);
                let b = multiset(&expect);
                if a != b {
                    let extra: Vec<&M> = a.keys().filter(|k| !b.contains_key(*k)).collect();
                    let lost: Vec<&M> = b.keys().filter(|k| !a.contains_key(*k)).collect();
                    ctx.fail(
                        if !extra.is_empty() { "C11:predicates:match_kept_that_fails_predicate" } else { "C11:predicates:match_dropped_that_satisfies_predicate" },
                        format!("Rust QueryMatches of the predicated query ({} matches) differ from the plain query's matches filtered by the reference evaluator ({} of {}): unexpected {:?}, lost {:?}\n{hdr}", got.len(), expect.len(), m_plain.len(), extra.iter().take(3).collect::<Vec<_>>(), lost.iter().take(3).collect::<Vec<_>>()),
                    );
                    return;
                }
                if expect.len() < m_plain.len() {
                    nontrivial = true;
                    ctx.label("predicate_rejected_some");
                }
            } else {
                ctx.label("predicate_on_absent_capture");
            }
            got
        } else {
            m_plain.clone()
        };
        let all_ms = multiset(&m_all);
        // (1) captures stream vs matches
        {
            let mut c = QueryCursor::new();
            let mut flat: BTreeMap<(usize, u32, usize), u32> = BTreeMap::new();
            for m in &m_all {
                for (ci, ni) in &m.1 {
                    *flat.entry((m.0, *ci, *ni)).or_insert(0) += 1;
                }
            }
            let mut seen: BTreeMap<(usize, u32, usize), u32> = BTreeMap::new();
            let mut last_start = 0usize;
            let mut order_ok = true;
            let mut caps = c.captures(&query, root, bytes);
            while let Some((m, ci)) = caps.next() {
                let cap = m.captures[*ci];
                if let Some(&i) = idx.get(&(cap.node.id(), cap.node.start_byte(), cap.node.end_byte())) {
                    *seen.entry((m.pattern_index, cap.index, i)).or_insert(0) += 1;
                    if cap.node.start_byte() < last_start {
                        order_ok = false;
                    }
                    last_start = cap.node.start_byte();
                }
            }
            drop(caps);
            ctx.out.inner += 1;
            if seen != flat && !c.did_exceed_match_limit() {
                let lost: Vec<_> = flat.keys().filter(|k| !seen.contains_key(*k)).take(3).collect();
                let extra: Vec<_> = seen.iter().filter(|(k, c)| flat.get(*k).map(|d| d < *c).unwrap_or(true)).map(|(k, _)| k).take(3).collect();
                let zero = !lost.is_empty() && lost.iter().all(|k| xt.nodes[k.2].start == xt.nodes[k.2].end) || (lost.is_empty() && extra.iter().all(|k| xt.nodes[k.2].start == xt.nodes[k.2].end));
                ctx.fail(if zero { "C11:captures_vs_matches:zero_width_node" } else if wild_root { "C11:captures_vs_matches:wildcard_root" } else if lost.is_empty() { "C11:captures_vs_matches:extra_capture" } else if has_optional { "C11:captures_vs_matches:lost_capture_with_alternation_or_quantifier" } else { "C11:captures_vs_matches" }, format!("capture stream has {} triples, matches flatten to {}: missing {:?} extra {:?} (pattern, capture, node#)\n{hdr}", seen.values().sum::<u32>(), flat.values().sum::<u32>(), lost, extra));
                return;
            }
            if !order_ok {
                ctx.fail(if wild_root { "C11:captures_order:wildcard_root" } else { "C11:captures_order" }, format!("capture stream is not in document order\n{hdr}"));
                return;
            }
        }
        // (3) re-execution and fresh cursor
        {
            let mut c = QueryCursor::new();
            let k = t.below(m_all.len() + 1);
            {
                let mut ms = c.matches(&query, root, bytes);
                for _ in 0..k {
                    if ms.next().is_none() {
                        break;
                    }
                }
            }
            let again = run!(&mut c, &query);
            ctx.out.inner += 1;
            if again != m_all {
                ctx.fail("C11:reexecution", format!("re-executing a cursor after consuming {k} matches gives {} matches, a fresh cursor gave {}\n{hdr}", again.len(), m_all.len()));
                return;
            }
        }
        // (2) ranges
        let cfg = t.weighted(&[25, 20, 20, 15, 20]);
        if cfg <= 3 && !m_all.is_empty() {
            // boundaries at node starts/ends +-1
            let pickb = |t: &mut Tape| -> usize {
                let n = &xt.nodes[t.below(xt.len())];
                let b = if t.pct(50) { n.start } else { n.end };
                (b as i64 + *t.pick(&[0i64, 0, 1, -1])).clamp(0, text.len() as i64) as usize
            };
            let (mut a, mut b) = (pickb(t), pickb(t));
            if a > b {
                std::mem::swap(&mut a, &mut b);
            }
            if b == 0 {
                b = 1.min(text.len());
            }
            let mut c = QueryCursor::new();
            let containing = cfg >= 2;
            let by_point = cfg % 2 == 1;
            let (pa, pb) = (text.point_of(a), text.point_of(b));
            match (containing, by_point) {
                (false, false) => {
                    c.set_byte_range(a..b);
                }
                (false, true) => {
                    c.set_point_range(pa..pb);
                }
                (true, false) => {
                    c.set_containing_byte_range(a..b);
                }
                (true, true) => {
                    c.set_containing_point_range(pa..pb);
                }
            }
            let _ = Point { row: 0, column: 0 };
            ctx.label(if containing { "cfg:containing" } else { "cfg:range" });
            cfg_desc.push(format!("{}{} {a}..{b}", if containing { "containing " } else { "" }, if by_point { "point range" } else { "byte range" }));
            if b > 0 && (pb.row, pb.column) != (0, 0) {
                let got = run!(&mut c, &query);
                ctx.out.inner += 1;
                let gm = multiset(&got);
                let mut must: Vec<M> = vec![];
                let mut may: Vec<M> = vec![];
                for m in &m_all {
                    let r = match root_of(m) {
                        Some(r) => &xt.nodes[r],
                        None => {
                            may.push(m.clone());
                            continue;
                        }
                    };
                    if r.start == r.end {
                        may.push(m.clone());
                        continue;
                    }
                    if containing {
                        // every node of the match lies inside the root
                        if r.start >= a && r.end <= b {
                            may.push(m.clone());
                            // zero-width nodes sitting exactly on a range boundary are not decided
                            let zero_on_boundary = xt.nodes.iter().any(|n| n.start == n.end && (n.start == a || n.start == b));
                            if !zero_on_boundary {
                                must.push(m.clone());
                            }
                        }
                    } else {
                        let all_caps_intersect = m.1.iter().all(|(_, i)| xt.nodes[*i].start < b && xt.nodes[*i].end > a);
                        if r.start < b && r.end > a {
                            may.push(m.clone());
                            if all_caps_intersect {
                                must.push(m.clone());
                            }
                        }
                    }
                }
                let kind = if containing { "containing" } else { "intersecting" };
                // A zero-width node (MISSING token) exactly on a range boundary may or may not count as inside; with an
                // optional / repeated sub-pattern the restricted run can then return the match without it, which the
                // unrestricted run subsumes under the longer one: not decided.
                let zero_width_on_boundary = xt.nodes.iter().any(|n| n.start == n.end && (n.start == a || n.start == b));
                let quantified = q.ast.patterns.iter().any(|(it, _)| query::item_has_quantifier(it));
                if zero_width_on_boundary && quantified {
                    ctx.label("range:zero_width_on_boundary_unjudged");
                } else if !is_sub(&gm, &multiset(&may)) {
                    let extra: Vec<_> = gm.keys().filter(|k| !may.contains(k)).take(3).collect();
                    ctx.fail(format!("C11:range:{kind}:unexpected_match{}", if wild_root { ":wildcard_root" } else { "" }), format!("{} returned a match that is not an unrestricted match whose root {} the range: {:?}\n{hdr}", cfg_desc.join(", "), if containing { "lies inside" } else { "intersects" }, extra));
                    return;
                }
                if !is_sub(&multiset(&must), &gm) {
                    let lost: Vec<_> = must.iter().filter(|k| !gm.contains_key(*k)).take(3).collect();
                    let open_q = q.ast.patterns.iter().any(|(it, _)| query::item_has_quantifier(it));
                    let wild_before_anchor = q.ast.patterns.iter().any(|(it, _)| crate::checks::c05::wildcard_child_before_anchor(it));
                    let has_alternation = q.ast.patterns.iter().any(|(it, _)| {
                        let mut f = std::collections::BTreeSet::new();
                        query::item_features(it, &mut f);
                        f.contains("q:alternation")
                    });
                    // a wildcard-rooted pattern starts matching at its first child step; children of the root that sit in a
                    // hidden node outside the range are never visited (known finding) - only when the root is partly outside
                    let all_lost_partly_outside = !containing
                        && must.iter().filter(|k| !gm.contains_key(*k)).all(|m| root_of(m).map(|r| xt.nodes[r].start < a || xt.nodes[r].end > b).unwrap_or(false));
                    ctx.fail(format!("C11:range:{kind}:lost_match{}", if wild_root && all_lost_partly_outside { ":wildcard_root:root_partly_outside_range" } else if wild_root { ":wildcard_root" } else if open_q { ":open_quantifier" } else if wild_before_anchor { ":wildcard_child_before_anchor" } else if has_alternation { ":alternation" } else { "" }), format!("{} lost matches that lie in the range: {:?} ({} returned, {} required)\n{hdr}", cfg_desc.join(", "), lost, got.len(), must.len()));
                    return;
                }
                if got.len() < m_all.len() && !got.is_empty() {
                    nontrivial = true;
                }
                // the capture stream under the same restriction: document order, and it contains the restricted matches
                let mut c2 = QueryCursor::new();
                match (containing, by_point) {
                    (false, false) => {
                        c2.set_byte_range(a..b);
                    }
                    (false, true) => {
                        c2.set_point_range(pa..pb);
                    }
                    (true, false) => {
                        c2.set_containing_byte_range(a..b);
                    }
                    (true, true) => {
                        c2.set_containing_point_range(pa..pb);
                    }
                }
                let mut seen: BTreeMap<(usize, u32, usize), u32> = BTreeMap::new();
                let mut last_start = 0usize;
                let mut order_ok = true;
                let mut order_detail = String::new();
                {
                    let mut caps = c2.captures(&query, root, bytes);
                    while let Some((m, ci)) = caps.next() {
                        let cap = m.captures[*ci];
                        if let Some(&i) = idx.get(&(cap.node.id(), cap.node.start_byte(), cap.node.end_byte())) {
                            *seen.entry((m.pattern_index, cap.index, i)).or_insert(0) += 1;
                        }
                        if cap.node.start_byte() < last_start && order_ok {
                            order_ok = false;
                            order_detail = format!("capture of pattern {} at byte {} delivered after a capture at byte {}", m.pattern_index, cap.node.start_byte(), last_start);
                        }
                        last_start = cap.node.start_byte();
                    }
                }
                ctx.out.inner += 1;
                if !order_ok {
                    ctx.fail(if wild_root { "C11:captures_order:wildcard_root".to_string() } else { format!("C11:range:{kind}:captures_order") }, format!("{}: capture stream not in document order: {order_detail}\n{hdr}", cfg_desc.join(", ")));
                    return;
                }
                let mut need: BTreeMap<(usize, u32, usize), u32> = BTreeMap::new();
                for m in &got {
                    for (ci, ni) in &m.1 {
                        // the capture stream only delivers captures that themselves intersect the range
                        let nd = &xt.nodes[*ni];
                        if nd.end > nd.start && nd.start < b && nd.end > a {
                            *need.entry((m.0, *ci, *ni)).or_insert(0) += 1;
                        }
                    }
                }
                if !need.keys().all(|k| seen.contains_key(k)) && !c2.did_exceed_match_limit() && !has_optional && !wild_root {
                    let lost: Vec<_> = need.keys().filter(|k| !seen.contains_key(*k)).take(3).collect();
                    ctx.fail(format!("C11:range:{kind}:capture_stream_lacks_match_capture"), format!("{}: captures of restricted matches missing from the restricted capture stream: {:?}\n{hdr}", cfg_desc.join(", "), lost));
                    return;
                }
            }
        }
        // (4) match limit
        {
            let limit = *t.pick(&[1u32, 2, 3, 4, 8, 16, 32]);
            let mut c = QueryCursor::new();
            c.set_match_limit(limit);
            let got = run!(&mut c, &query);
            ctx.out.inner += 1;
            let gm = multiset(&got);
            let exceeded = c.did_exceed_match_limit();
            ctx.label_if(exceeded, "limit:exceeded");
            let strict = is_sub(&gm, &all_ms);
            // With quantifiers/alternations the unlimited stream is not a complete reference (of several overlapping
            // candidates only some are reported, and which ones depends on which states a limit evicts): the statement
            // only demands that dropped matches are reported, so nothing is required here.
            if !strict && !has_optional {
                // with optional captures the runtime keeps only the match with the most captures; under a limit the
                // larger one may be evicted and a sub-binding survives: accept sub-bindings when the query has such parts
                let relaxed = (has_optional || wild_root) && got.iter().all(|g| m_all.iter().any(|m| m.0 == g.0 && g.1.iter().all(|x| m.1.contains(x))));
                if !relaxed {
                    ctx.fail(if wild_root { "C11:limit:not_a_subset:wildcard_root" } else { "C11:limit:not_a_subset" }, format!("with match limit {limit} the cursor returned a match the unlimited cursor does not return\n{hdr}"));
                    return;
                }
            }
            if strict && gm != all_ms && !exceeded {
                let lost: Vec<_> = all_ms.keys().filter(|k| !gm.contains_key(*k)).take(3).collect();
                ctx.fail("C11:limit:drop_not_reported", format!("match limit {limit}: {} of {} matches returned, lost e.g. {:?}, but did_exceed_match_limit() is false\n{hdr}", got.len(), m_all.len(), lost));
                return;
            }
            // the capture stream under a limit
            let mut c2 = QueryCursor::new();
            c2.set_match_limit(limit);
            let mut n_caps = 0usize;
            {
                let mut caps = c2.captures(&query, root, bytes);
                while let Some(_) = caps.next() {
                    n_caps += 1;
                }
            }
            let total: usize = m_all.iter().map(|m| m.1.len()).sum();
            if n_caps < total && !c2.did_exceed_match_limit() {
                ctx.fail("C11:limit:capture_drop_not_reported", format!("match limit {limit}: the capture stream has {n_caps} of {total} captures but did_exceed_match_limit() is false\n{hdr}"));
                return;
            }
            // (3b) the same limit on a cursor that was used before and abandoned part-way: identical to the fresh one
            {
                let mut c3 = QueryCursor::new();
                c3.set_match_limit(limit);
                let rounds = 1 + t.below(4);
                for _ in 0..rounds {
                    if t.pct(50) {
                        let mut caps = c3.captures(&query, root, bytes);
                        for _ in 0..1 + t.below(3) {
                            if caps.next().is_none() {
                                break;
                            }
                        }
                    } else {
                        let mut ms = c3.matches(&query, root, bytes);
                        for _ in 0..1 + t.below(3) {
                            if ms.next().is_none() {
                                break;
                            }
                        }
                    }
                }
                let got3 = run!(&mut c3, &query);
                ctx.out.inner += 1;
                let exceeded3 = c3.did_exceed_match_limit();
                if got3 != got || exceeded3 != exceeded {
                    ctx.fail("C11:reexecution:with_limit_after_abandoned_runs", format!("match limit {limit}: a cursor that was abandoned part-way {rounds} time(s) returns {} matches (exceeded={exceeded3}), a fresh cursor with the same limit {} (exceeded={exceeded})\n{hdr}", got3.len(), got.len()));
                    return;
                }
            }
            if got.len() < m_all.len() {
                nontrivial = true;
            }
            cfg_desc.push(format!("limit {limit}"));
        }
        // (7) max_start_depth
        if cfg == 4 {
            let d = t.below(7) as u32;
            let mut c = QueryCursor::new();
            c.set_max_start_depth(Some(d));
            let got = run!(&mut c, &query);
            ctx.out.inner += 1;
            let expect: Vec<M> = m_all.iter().filter(|m| root_of(m).map(|r| xt.nodes[r].depth <= d).unwrap_or(true)).cloned().collect();
            let rooted_known = m_all.iter().all(|m| root_of(m).is_some());
            if rooted_known && multiset(&got) != multiset(&expect) {
                ctx.fail(if wild_root { "C11:max_start_depth:wildcard_root" } else if has_optional { "C11:max_start_depth:quantifier_or_alternation" } else { "C11:max_start_depth" }, format!("max_start_depth {d}: {} matches returned, {} unrestricted matches have their root at depth <= {d}\n{hdr}", got.len(), expect.len()));
                return;
            }
            ctx.label("cfg:max_start_depth");
            cfg_desc.push(format!("max_start_depth {d}"));
            if got.len() < m_all.len() && !got.is_empty() {
                nontrivial = true;
            }
        }
        // (5) remove
        if !m_all.is_empty() && t.pct(40) {
            let mut c = QueryCursor::new();
            let victim_k = t.below(m_all.len().min(6));
            let mut removed_id: Option<u32> = None;
            let mut removed_match: Option<M> = None;
            let mut after: BTreeMap<(usize, u32, usize), u32> = BTreeMap::new();
            let mut seen_matches = 0usize;
            let mut bad = None;
            {
                let mut caps = c.captures(&query, root, bytes);
                let mut last_id: Option<u32> = None;
                while let Some((m, ci)) = caps.next() {
                    let cap = m.captures[*ci];
                    let ni = idx.get(&(cap.node.id(), cap.node.start_byte(), cap.node.end_byte())).copied().unwrap_or(usize::MAX);
                    if Some(m.id()) == removed_id {
                        bad = Some(format!("a capture of removed match id {} was still delivered", m.id()));
                        break;
                    }
                    if last_id != Some(m.id()) {
                        last_id = Some(m.id());
                        if removed_id.is_none() && seen_matches == victim_k {
                            removed_id = Some(m.id());
                            let mut cs: Vec<(u32, usize)> = m.captures.iter().filter_map(|c| idx.get(&(c.node.id(), c.node.start_byte(), c.node.end_byte())).map(|i| (c.index, *i))).collect();
                            cs.sort();
                            removed_match = Some((m.pattern_index, cs));
                            *after.entry((m.pattern_index, cap.index, ni)).or_insert(0) += 1;
                            m.remove();
                            seen_matches += 1;
                            continue;
                        }
                        seen_matches += 1;
                    }
                    *after.entry((m.pattern_index, cap.index, ni)).or_insert(0) += 1;
                }
            }
            ctx.out.inner += 1;
            if let Some(b) = bad {
                ctx.fail(if has_optional || wild_root { "C11:remove:later_capture_delivered:split_states" } else { "C11:remove:later_capture_delivered" }, format!("{b}\n{hdr}"));
                return;
            }
            let _ = removed_match;
            // every delivered triple must be a triple of the unrestricted stream
            let mut flat: BTreeMap<(usize, u32, usize), u32> = BTreeMap::new();
            for m in &m_all {
                for (ci, ni) in &m.1 {
                    *flat.entry((m.0, *ci, *ni)).or_insert(0) += 1;
                }
            }
            if !after.iter().all(|(k, c)| flat.get(k).map(|d| d >= c).unwrap_or(false)) && !c.did_exceed_match_limit() {
                ctx.fail("C11:remove:unknown_capture", format!("after remove() the capture stream delivered a triple the plain stream does not contain\n{hdr}"));
                return;
            }
            ctx.label("cfg:remove");
        }
        ctx.out.nontrivial = nontrivial && m_all.len() >= 2;
        ctx.out.hash = fnv(format!("{lname}|{:?}|{}|{:?}", text.bytes, q.src, cfg_desc).as_bytes());
        if ctx.want_sample {
            ctx.out.sample = json!({"lang": lname, "text": show_bytes(&text.bytes, 100), "query": q.src, "config": cfg_desc, "unrestricted_matches": m_all.len()});
        }
    }
}

fn collect_caps(it: &query::Item) -> Vec<String> {
    let mut v = it.captures.clone();
    match &it.pat {
        query::Pat::Node { children, .. } => {
            for c in children {
                v.extend(collect_caps(&c.item));
            }
        }
        query::Pat::Alt(items) => {
            for x in items {
                v.extend(collect_caps(x));
            }
        }
        query::Pat::Group(children, _) => {
            for c in children {
                v.extend(collect_caps(&c.item));
            }
        }
    }
    v
}
