//! C12: re-parsing after a small edit reuses the unchanged parts of the old tree (deterministic counters, no clock).
use crate::core::{Check, Ctx, Tier};
use crate::lang;
use crate::model::text::{show_bytes, Edit, Text};
use crate::model::xtree::{xtree_diff, EqOpts, XTree};
use crate::tape::{fnv, Tape};
use serde_json::json;
use std::cell::Cell;
use std::sync::atomic::{AtomicU64, Ordering};
use std::sync::Arc;
use tree_sitter::{LogType, Parser, Point};

pub struct C12;

const LANGS: &[&str] = &["json", "mini", "arith", "indent", "glr"];

/// thresholds: reference values measured on the unchanged tree are lexed ~2-8 tokens, served 64-128 bytes,
/// shared >= 0.85; the bounds leave a factor >= 10 (floor 2%).
const MAX_LEXED_FRACTION: f64 = 0.02;
const MAX_SERVED_FRACTION: f64 = 0.02;
const MIN_SHARED_FRACTION: f64 = 0.60;

fn statement(lname: &str, t: &mut Tape, k: usize) -> String {
    match lname {
        "json" => match t.below(4) {
            0 => format!("{{\"k{k}\": [1, 2, {k}]}}\n"),
            1 => format!("[{k}, \"s\", null]\n"),
            2 => format!("{k}\n"),
            _ => format!("{{\"a\": {{\"b\": {k}}}}}\n"),
        },
        "mini" => match t.below(5) {
            0 => format!("let v{k} = {k};\n"),
            1 => format!("f(a, {k});\n"),
            2 => format!("if (x) {{ y = {k}; }}\n"),
            3 => format!("fn g{k}(a) {{ return a + {k}; }}\n"),
            _ => format!("// comment {k}\nx = x + {k};\n"),
        },
        "arith" => match t.below(3) {
            0 => format!("a + {k} * b;\n"),
            1 => format!("f(x, {k});\n"),
            _ => format!("(a - {k}) ^ 2;\n"),
        },
        // the kinds rotate with k so that every document is a mix (a document of 'x + k' lines only shares nothing
        // with the old tree on the reference tree, see the known finding)
        "indent" => match (t.below(3) + k) % 3 {
            0 => format!("x + {k}\n"),
            1 => format!("if a:\n    b + {k}\n    pass\n"),
            _ => format!("def f(a):\n    a * {k}\n"),
        },
        _ => match t.below(3) {
            0 => format!("a * b{k};\n"),
            1 => format!("x * {k};\n"),
            _ => format!("T < U > v{k};\n(a) * {k};\n"),
        },
    }
}

/// build an error-free document of about `tokens` tokens; returns text and offsets of numeric tokens
fn build_doc(lname: &str, t: &mut Tape, tokens: usize, nested: bool) -> String {
    let mut s = String::new();
    let mut k = 100;
    if nested && lname == "mini" {
        s.push_str("fn outer(a) {\n");
    }
    if nested && lname == "json" {
        s.push_str("[\n");
    }
    if nested && lname == "indent" {
        s.push_str("def outer(a):\n");
    }
    let mut est = 0;
    while est < tokens {
        let st = statement(lname, t, k);
        est += st.split(|c: char| !c.is_alphanumeric()).filter(|x| !x.is_empty()).count() * 2;
        if nested && lname == "json" {
            s.push_str(st.trim_end());
            s.push_str(",\n");
        } else if nested && lname == "indent" {
            // the whole document is one indentation block: every parse state inside it accepts external tokens
            for line in st.lines() {
                s.push_str("    ");
                s.push_str(line);
                s.push('\n');
            }
        } else {
            s.push_str(&st);
        }
        k += 1;
    }
    if nested && lname == "mini" {
        s.push_str("}\n");
    }
    if nested && lname == "json" {
        s.push_str("0 ]\n");
    }
    s
}

struct Measure {
    lexed: u64,
    served: u64,
    shared: f64,
    leaves: usize,
    len: usize,
    token_replaced: bool,
    /// indent documents: each of the three statement kinds makes up at least a fifth of the statements
    mixed: bool,
}

impl Check for C12 {
    fn id(&self) -> &'static str {
        "C12"
    }
    fn rule(&self) -> String {
        format!("case = zoo language (json, mini, arith, indent, glr) x generated error-free document of N = 10^3 or 10^4 tokens (thorough: also 10^5), flat or nested in one enclosing block x one single-token edit (a number replaced by a number of another length) at relative position 0, 0.1, 0.5, 0.9, 1 or tape-chosen. During parse(new, edited old tree) three clock-free quantities are measured: lexed = number of 'lexed_lookahead' parse-log events / leaf count; served = bytes handed out by a 64-byte-chunk read callback / document length; shared = fraction of the new tree's node ids that also occur in the old tree. Required: lexed <= {MAX_LEXED_FRACTION}, served <= {MAX_SERVED_FRACTION}, shared >= {MIN_SHARED_FRACTION} (reference tree: about 2-8 tokens, 64-128 bytes, >= 0.85), and no fraction at 10N exceeds max(2 x fraction at N, 1%). Grammars for which the reference tree itself is far from these bounds are judged by calibrated per-grammar bounds (mini; indent, flat or wholly nested in one indentation block, when a number token is replaced in a document that mixes the three statement kinds: lexed <= 0.15 and shared >= 0.45 against measured 0.023-0.052 and >= 0.73) and the gap is listed as a known finding. The new tree must equal a scratch parse. Every case is non-trivial (N >= 10^3, error-free, non-empty edit); distinct by hash(language, document, edit).")
    }
    fn cases(&self, tier: Tier) -> u64 {
        match tier {
            Tier::Quick => 4000,
            Tier::Thorough => 12000,
        }
    }
    fn langs(&self) -> Vec<&'static str> {
        LANGS.to_vec()
    }
    fn floors(&self) -> Vec<(&'static str, f64)> {
        vec![("size:10^4", 0.2), ("nested", 0.15)]
    }
    fn run_case(&self, ctx: &mut Ctx, t: &mut Tape) {
        let lname = LANGS[t.weighted(&[22, 28, 16, 18, 16])];
        let lang = lang::zoo(lname);
        let big = if ctx.tier == Tier::Thorough { t.weighted(&[40, 45, 15]) } else { t.weighted(&[55, 45, 0]) };
        let sizes: [usize; 3] = [1000, 10_000, 100_000];
        let n = sizes[big];
        let nested = t.pct(55) && (lname == "mini" || lname == "json" || lname == "indent");
        ctx.label(format!("lang:{lname}"));
        ctx.label(["size:10^3", "size:10^4", "size:10^5"][big]);
        ctx.label_if(nested, "nested");
        let pos_class = t.weighted(&[15, 15, 20, 15, 15, 20]);
        let rel: f64 = match pos_class {
            0 => 0.0,
            1 => 0.1,
            2 => 0.5,
            3 => 0.9,
            4 => 1.0,
            _ => t.below(1000) as f64 / 1000.0,
        };
        // measure at N and, for the growth rule, at N/10 with the same generator stream shape
        // 0 = replace a number, 1 = insert a statement at a top-level line start, 2 = delete a statement line
        let edit_kind = t.weighted(&[50, 35, 15]);
        ctx.label(["edit:replace_token", "edit:insert_statement", "edit:delete_statement"][edit_kind]);
        let mut measure = |ctx: &mut Ctx, t: &mut Tape, tokens: usize| -> Option<(Measure, String)> {
            let doc = build_doc(lname, t, tokens, nested);
            let mut text = Text::new(doc.into_bytes());
            let mut parser = Parser::new();
            parser.set_language(&lang.language).unwrap();
            let mut old = parser.parse(&text.bytes, None)?;
            if old.root_node().has_error() {
                ctx.fail("C12:generator_produced_invalid_document", format!("lang={lname} {:?}", show_bytes(&text.bytes, 200)));
                return None;
            }
            // pick a number token near the relative position
            let target = ((text.len() as f64) * rel) as usize;
            let b = &text.bytes;
            let is_num_at = |i: usize| b[i].is_ascii_digit() && (i == 0 || !b[i - 1].is_ascii_alphanumeric() && b[i - 1] != b'_' && b[i - 1] != b'"');
            let mut pos = None;
            for d in 0..text.len() {
                let (lo, hi) = (target.saturating_sub(d), target + d);
                if lo < text.len() && is_num_at(lo) {
                    pos = Some(lo);
                    break;
                }
                if hi < text.len() && is_num_at(hi) {
                    pos = Some(hi);
                    break;
                }
            }
            let start = pos?;
            let mut end = start;
            while end < text.len() && text.bytes[end].is_ascii_digit() {
                end += 1;
            }
            let repl: &[u8] = if end - start == 1 { b"4242" } else { b"7" };
            let mut edit = Edit { start, old_end: end, inserted: repl.to_vec() };
            // other single-token-sized edits that keep the text valid: insert / delete one whole top-level statement
            // (a pure insertion or deletion at a line start, including byte 0)
            if edit_kind != 0 && !nested {
                let b = &text.bytes;
                // top-level line starts: column 0 and not followed by indentation or a closer
                let mut ls: Vec<usize> = (0..text.line_count()).map(|r| text.line_start(r)).filter(|&p| p < b.len() && !matches!(b[p], b' ' | b'\t' | b'}' | b']' | b'\n')).collect();
                if lname == "indent" {
                    // a statement may only be inserted before another top-level statement (not between a header and its block)
                    ls.retain(|&p| p == 0 || !b[..p].ends_with(b":\n"));
                }
                if !ls.is_empty() {
                    let near = *ls.iter().min_by_key(|&&p| (p as i64 - target as i64).abs()).unwrap();
                    if edit_kind == 1 {
                        let st = statement(lname, t, 777);
                        edit = Edit { start: near, old_end: near, inserted: st.into_bytes() };
                    } else if lname != "indent" {
                        // delete the statement line starting there (single-line statements only)
                        let row = text.point_of(near).row;
                        if row + 1 < text.line_count() {
                            let e = text.line_start(row + 1);
                            let line = &b[near..e];
                            let balanced = line.iter().filter(|c| **c == b'{' || **c == b'[' || **c == b'(').count() == line.iter().filter(|c| **c == b'}' || **c == b']' || **c == b')').count();
                            if balanced && !line.starts_with(b"//") {
                                edit = Edit { start: near, old_end: e, inserted: vec![] };
                            }
                        }
                    }
                }
            }
            let (start, end) = (edit.start, edit.old_end);
            let token_replaced = !edit.inserted.is_empty() && end > start;
            let mixed = {
                let txt = String::from_utf8_lossy(&text.bytes);
                let (mut a, mut b, mut c) = (0usize, 0usize, 0usize);
                for l in txt.lines() {
                    let l = l.trim_start();
                    if l.starts_with("x + ") {
                        a += 1;
                    } else if l.starts_with("if a:") {
                        b += 1;
                    } else if l.starts_with("def f(") {
                        c += 1;
                    }
                }
                let tot = (a + b + c).max(1);
                a * 5 >= tot && b * 5 >= tot && c * 5 >= tot
            };
            let desc = format!("{}..{} -> {:?} (relative position {:.3})", start, end, String::from_utf8_lossy(&edit.inserted[..edit.inserted.len().min(30)]), start as f64 / text.len().max(1) as f64);
            let old_ids = XTree::build(&old).ids();
            let ie = text.apply(&edit);
            old.edit(&ie);
            // measured re-parse
            let lexed = Arc::new(AtomicU64::new(0));
            let l2 = lexed.clone();
            parser.set_logger(Some(Box::new(move |ty, msg| {
                if ty == LogType::Parse && msg.starts_with("lexed_lookahead") {
                    l2.fetch_add(1, Ordering::Relaxed);
                }
            })));
            let served = Cell::new(0u64);
            let bytes = &text.bytes;
            let mut read = |off: usize, _p: Point| -> &[u8] {
                if off >= bytes.len() {
                    return &[];
                }
                let e = (off + 64).min(bytes.len());
                served.set(served.get() + (e - off) as u64);
                &bytes[off..e]
            };
            let new = parser.parse_with_options(&mut read, Some(&old), None)?;
            parser.set_logger(None);
            let nx = XTree::build(&new);
            let shared = nx.nodes.iter().filter(|x| old_ids.contains(&x.id)).count() as f64 / nx.len().max(1) as f64;
            // sanity: equals scratch
            let mut p2 = Parser::new();
            p2.set_language(&lang.language).unwrap();
            let scr = p2.parse(&text.bytes, None)?;
            if let Some((_, _, d)) = xtree_diff(&nx, &XTree::build(&scr), EqOpts::FULL) {
                if !ctx.is_known("C12:differs_from_scratch") {
                    ctx.fail("C12:differs_from_scratch", format!("lang={lname} edit {desc}: {d}"));
                }
                return None;
            }
            let leaves = nx.leaves().count();
            Some((Measure { lexed: lexed.load(Ordering::Relaxed), served: served.get(), shared, leaves, len: text.len(), token_replaced, mixed }, desc))
        };
        let (m, desc) = match measure(ctx, t, n) {
            Some(x) => x,
            None => {
                if !ctx.failed() {
                    ctx.discard("no numeric token / parse failed");
                }
                return;
            }
        };
        ctx.out.inner += 1;
        let lf = m.lexed as f64 / m.leaves.max(1) as f64;
        let sf = m.served as f64 / m.len.max(1) as f64;
        let info = format!("lang={lname} N~{n} tokens ({} leaves, {} bytes) nested={nested} edit {desc}: lexed {} tokens ({:.4}), served {} bytes ({:.4}), shared node ids {:.3}", m.leaves, m.len, m.lexed, lf, m.served, sf, m.shared);
        if let Ok(f) = std::env::var("VERIF_C12_DEBUG") {
            use std::io::Write;
            if let Ok(mut fh) = std::fs::OpenOptions::new().create(true).append(true).open(f) {
                let _ = writeln!(fh, "{info}");
            }
        }
        // per-grammar thresholds, calibrated on the reference tree with a wide margin (see DESIGN.md, C12):
        //   arith/json/glr: measured lexed <= 0.0012, served 16-64 bytes, shared >= 0.994
        //   mini:           measured lexed 0.08-0.10, served 0.83-1.01, shared 0.70-0.75 (statements that start with
        //                   an identifier are never reused as a whole in a grammar with keywords)
        //   indent:         measured lexed 0.029-0.041, served 0.40-0.57, shared 0.77-0.82 (external scanner tokens)
        let (max_lexed, max_served, min_shared) = match lname {
            "mini" => (0.35, 1.6, 0.25),
            // indent: depending on the document shape nothing at all may be shared (all top-level 'x + k' lines):
            // no threshold can be calibrated "with a wide margin"; the finding is recorded, regressions are not judged
            // ... but when one number token is replaced and the line structure stays (no statement inserted), the
            // reference tree re-lexes 2.3%-5.2% of the tokens (max over 4 seeds x ~400 cases, flat and nested in one
            // block) and shares >= 0.70 of the node ids: a bound with a factor 3 margin is judged there
            // (inside one big indentation block the reference tree asks for the text 1.17 times on average and up to
            // 1.68 times - measured over 2000 cases -, flat documents stay below 0.7 / 1.41)
            "indent" if m.token_replaced && m.mixed => (0.15, if nested { 2.5 } else { 1.6 }, 0.45),
            "indent" => (1.01, if nested { 2.5 } else { 1.6 }, 0.0),
            // glr: every statement of the generated documents needs two stack versions; nodes made then are fragile and never reused
            "glr" => (1.01, 1.6, 0.0),
            _ => (MAX_LEXED_FRACTION, MAX_SERVED_FRACTION + 256.0 / m.len.max(1) as f64, 0.90),
        };
        if (lname == "mini" || lname == "indent" || lname == "glr") && (lf > MAX_LEXED_FRACTION || sf > 0.10 || m.shared < 0.90) {
            // the statement's "small fraction" does not hold for these grammars on the unchanged tree
            ctx.fail(format!("C12:rescans_document:{lname}"), format!("far from 'a small fraction': {info}"));
        }
        if lf > max_lexed {
            ctx.fail("C12:lexed_fraction", format!("re-lexed too much (limit {max_lexed}): {info}"));
        }
        if sf > max_served {
            ctx.fail("C12:served_fraction", format!("read too much input (limit {max_served:.3}): {info}"));
        }
        if m.shared < min_shared {
            ctx.fail("C12:shared_fraction", format!("too few nodes shared with the old tree (limit {min_shared}): {info}"));
        }
        // growth: compare with a document one tenth of the size
        if big >= 1 && !ctx.failed() && lname != "indent" && lname != "glr" {
            if let Some((s, _)) = measure(ctx, t, n / 10) {
                ctx.out.inner += 1;
                let lf0 = s.lexed as f64 / s.leaves.max(1) as f64;
                let sf0 = s.served as f64 / s.len.max(1) as f64;
                if lf > (2.0 * lf0).max(0.01) || sf > (2.0 * sf0).max(0.01 + 256.0 / m.len.max(1) as f64) || (1.0 - m.shared) > (2.0 * (1.0 - s.shared)).max(0.01) + 0.4 {
                    ctx.fail("C12:fractions_grow_with_size", format!("{info}; at N/10: lexed {:.4} served {:.4} shared {:.3}", lf0, sf0, s.shared));
                }
            }
        }
        ctx.out.nontrivial = true;
        ctx.out.hash = fnv(format!("{lname}|{n}|{nested}|{desc}|{}", m.len).as_bytes());
        if ctx.want_sample {
            ctx.out.sample = json!({"lang": lname, "tokens": n, "nested": nested, "edit": desc, "lexed_tokens": m.lexed, "served_bytes": m.served, "shared_fraction": m.shared, "leaves": m.leaves, "bytes": m.len});
        }
    }
}
