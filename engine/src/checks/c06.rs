//! C06: node and cursor navigation agree with the single ordered tree of a depth-first walk.
use crate::core::{Check, Ctx, Tier};
use crate::gen::doc::{self, DocClass};
use crate::gen::edits::EditGen;
use crate::lang::{self, Lang};
use crate::model::text::{show_bytes, Text};
use crate::model::xtree::{kind_name, XNode, XTree};
use crate::tape::{fnv, Tape};
use serde_json::json;
use tree_sitter::{Node, Parser, Point, TreeCursor};

pub struct C06;

const LANGS: &[&str] = &["mini", "arith", "indent", "json", "heredoc", "glr", "alias"];

fn same(n: &Node, x: &XNode) -> bool {
    n.id() == x.id && n.start_byte() == x.start && n.end_byte() == x.end && n.kind_id() == x.kind_id
}
fn same_opt(n: &Option<Node>, x: Option<&XNode>) -> bool {
    match (n, x) {
        (None, None) => true,
        (Some(n), Some(x)) => same(n, x),
        _ => false,
    }
}
fn show_node(n: &Option<Node>) -> String {
    match n {
        None => "null".into(),
        Some(n) => format!("{}[{}..{}]#{:x}", n.kind(), n.start_byte(), n.end_byte(), n.id() & 0xffff),
    }
}
fn show_x(l: &tree_sitter::Language, x: Option<&XNode>) -> String {
    match x {
        None => "null".into(),
        Some(x) => format!("{}[{}..{}]#{:x}", kind_name(l, x.kind_id), x.start, x.end, x.id & 0xffff),
    }
}

/// decode the code point at `pos` the way the lexer does: Some(cp) or None for an invalid sequence
fn decode_at(text: &[u8], pos: usize) -> Option<u32> {
    let b = &text[pos..];
    if b.is_empty() {
        return Some(0);
    }
    let n = b.len().min(4);
    for k in 1..=n {
        if let Ok(s) = std::str::from_utf8(&b[..k]) {
            return s.chars().next().map(|c| c as u32);
        }
    }
    None
}

fn write_char(cp: Option<u32>) -> String {
    match cp {
        None => "INVALID".into(),
        Some(0) => "'\\0'".into(),
        Some(10) => "'\\n'".into(),
        Some(9) => "'\\t'".into(),
        Some(13) => "'\\r'".into(),
        Some(c) if c < 128 && (c as u8 as char).is_ascii_graphic() || c == 32 => format!("'{}'", c as u8 as char),
        Some(c) => format!("{}", c),
    }
}

/// The character shown in `(UNEXPECTED 'c')` is not part of the tree's structure (the runtime records the
/// look-ahead before skipping padding); it is wildcarded on both sides.
pub fn wildcard_unexpected(s: &str) -> String {
    use std::sync::OnceLock;
    static RE: OnceLock<regex::Regex> = OnceLock::new();
    let re = RE.get_or_init(|| regex::Regex::new(r"\(UNEXPECTED ('\\?.'|-?[0-9]+|INVALID)\)").unwrap());
    re.replace_all(s, "(UNEXPECTED _)").into_owned()
}

/// reference S-expression renderer over the explicit tree
pub fn sexp(xt: &XTree, lang: &Lang, text: &[u8], root: usize) -> String {
    let l = &lang.language;
    let mut out = String::new();
    // (index, inherited field, is_root, phase)
    fn rec(xt: &XTree, l: &tree_sitter::Language, text: &[u8], i: usize, inherited: Option<u16>, is_root: bool, out: &mut String) {
        let n = &xt.nodes[i];
        let field = n.field.or(inherited);
        let visible = n.named || n.missing;
        if visible || is_root {
            if !is_root {
                out.push(' ');
                if let Some(f) = field {
                    out.push_str(l.field_name_for_id(f).unwrap_or("?"));
                    out.push_str(": ");
                }
            }
            if !visible {
                // root that is anonymous
                if !n.children.is_empty() {
                    out.push('(');
                    out.push_str(kind_name(l, n.kind_id));
                } else {
                    out.push_str(&format!("(\"{}\")", kind_name(l, n.kind_id)));
                }
            } else if n.error && n.children.is_empty() && n.end > n.start {
                out.push_str("(UNEXPECTED ");
                out.push_str(&write_char(decode_at(text, n.start.min(text.len()))));
            } else if n.missing {
                out.push_str("(MISSING ");
                if n.named {
                    out.push_str(kind_name(l, n.kind_id));
                } else {
                    out.push_str(&format!("\"{}\"", kind_name(l, n.kind_id)));
                }
            } else {
                out.push('(');
                out.push_str(kind_name(l, n.kind_id));
            }
        }
        for &c in &n.children {
            rec(xt, l, text, c, if visible || is_root { None } else { field }, false, out);
        }
        if visible || (is_root && !n.children.is_empty()) {
            out.push(')');
        }
    }
    rec(xt, l, text, root, None, true, &mut out);
    out
}

impl Check for C06 {
    fn id(&self) -> &'static str {
        "C06"
    }
    fn rule(&self) -> String {
        "case = zoo language (hidden/inlined rules, named+anonymous aliases, fields through hidden nodes, supertypes, non-terminal extras, zero-width scanner tokens) x document (sentence / mutated / huge incl. > 255 raw children and long error runs) [x edit + re-parse in 30%]. The explicit tree from ONE depth-first cursor walk is the model; for up to 260 nodes per tree every Node API answer (parent, child, named_child, next/prev (named) sibling, child_by_field_name, field_name_for_child, first_child_for_byte, descendant_for_byte/point_range, child_with_descendant, descendant_count) and every cursor move from a cursor placed on that node (first/last child, next/previous sibling, parent, goto_descendant, first-child-for-byte/point, depth, descendant_index, field; also cursors rooted at the node) must name the model's node (identity = id+range+kind); to_sexp() must equal an independent renderer over the model. evaluations = nodes checked. Non-trivial: node has >= 1 sibling or is zero-width; distinct by hash(language, text, node index).".into()
    }
    fn cases(&self, tier: Tier) -> u64 {
        match tier {
            Tier::Quick => 12_000,
            Tier::Thorough => 250_000,
        }
    }
    fn langs(&self) -> Vec<&'static str> {
        LANGS.to_vec()
    }
    fn floors(&self) -> Vec<(&'static str, f64)> {
        vec![("tree:zero_width", 0.05), ("tree:error", 0.20), ("tree:raw_children>255", 0.02), ("tree:aliases", 0.15), ("tree:after_reparse", 0.15)]
    }
    fn run_case(&self, ctx: &mut Ctx, t: &mut Tape) {
        let lname = LANGS[t.weighted(&[30, 8, 17, 8, 10, 10, 17])];
        let lang = lang::zoo(lname);
        let class = match t.weighted(&[45, 38, 17]) {
            0 => DocClass::Sentence,
            1 => DocClass::Mutated,
            _ => DocClass::Huge,
        };
        let bytes = doc::gen_doc(lang, class, t);
        if bytes.len() > 200_000 {
            ctx.discard("too large");
            return;
        }
        let mut text = Text::new(bytes);
        let mut parser = Parser::new();
        parser.set_language(&lang.language).unwrap();
        let mut tree = match parser.parse(&text.bytes, None) {
            Some(t) => t,
            None => {
                ctx.discard("no tree");
                return;
            }
        };
        let mut edits = vec![];
        if t.pct(30) && text.len() < 20_000 {
            ctx.label("tree:after_reparse");
            let mut eg = EditGen::new();
            for _ in 0..1 + t.below(3) {
                let ge = eg.next(lang, &text, t);
                let ie = text.apply(&ge.edit);
                tree.edit(&ie);
                edits.push(format!("{}..{} -> {:?}", ge.edit.start, ge.edit.old_end, show_bytes(&ge.edit.inserted, 30)));
            }
            tree = match parser.parse(&text.bytes, Some(&tree)) {
                Some(t) => t,
                None => {
                    ctx.discard("no tree");
                    return;
                }
            };
        }
        let l = &lang.language;
        let root = tree.root_node();
        let (xt, hs) = XTree::build_nodes(root);
        let n = xt.len();
        ctx.label(format!("lang:{lname}"));
        ctx.label_if(xt.nodes.iter().any(|x| x.start == x.end), "tree:zero_width");
        ctx.label_if(xt.nodes.iter().any(|x| x.error || x.missing), "tree:error");
        ctx.label_if(xt.nodes.iter().any(|x| x.children.len() > 255), "tree:raw_children>255");
        ctx.label_if(xt.nodes.iter().any(|x| x.kind_id != x.grammar_id), "tree:aliases");
        let hdr = format!("lang={lname} class={} edits={:?} text={:?}", class.name(), edits, show_bytes(&text.bytes, 260));
        // subtree sizes
        let mut size = vec![1usize; n];
        for i in (0..n).rev() {
            for &c in &xt.nodes[i].children {
                size[i] += size[c];
            }
        }
        // choose nodes
        let mut chosen: Vec<usize> = if n <= 220 {
            (0..n).collect()
        } else {
            let mut v: Vec<usize> = (0..150).map(|_| t.below(n)).collect();
            for i in 0..n {
                if xt.nodes[i].start == xt.nodes[i].end && v.len() < 230 {
                    v.push(i);
                    if i > 0 {
                        v.push(i - 1);
                    }
                    if i + 1 < n {
                        v.push(i + 1);
                    }
                }
            }
            // last children of very wide parents (raw index > 255)
            for i in 0..n {
                let k = xt.nodes[i].children.len();
                if k > 255 {
                    v.push(xt.nodes[i].children[k - 1]);
                    v.push(xt.nodes[i].children[255.min(k - 1)]);
                    v.push(xt.nodes[i].children[256.min(k - 1)]);
                }
            }
            v.sort();
            v.dedup();
            v
        };
        chosen.truncate(260);
        macro_rules! bad {
            ($sig:expr, $($arg:tt)*) => {{
                if ctx.fail($sig, format!("{}\n{}", format!($($arg)*), hdr)) && ctx.out.fails.len() >= 4 { return; }
            }};
        }
        // sexp of the root (only when the tree was parsed from exactly this text)
        if n <= 3000 {
            let mine = wildcard_unexpected(&sexp(&xt, lang, &text.bytes, 0));
            let theirs = wildcard_unexpected(&root.to_sexp());
            if mine != theirs {
                let common = mine.bytes().zip(theirs.bytes()).take_while(|(a, b)| a == b).count();
                let a = &mine[common.saturating_sub(60).min(mine.len())..];
                let b = &theirs[common.saturating_sub(60).min(theirs.len())..];
                let sig = "C06:sexp:mismatch";
                bad!(sig, "to_sexp differs from the model renderer at offset {common}:\n model: …{}\n to_sexp: …{}", &a[..a.len().min(200)], &b[..b.len().min(200)]);
            }
        }
        let mut nontrivial = false;
        for &i in &chosen {
            let x = &xt.nodes[i];
            let h = hs[i];
            ctx.out.inner += 1;
            let here = format!("node #{i} {} {}", xt.path_kinds(i, l), show_x(l, Some(x)));
            // --- parent / child index
            let par = x.parent.map(|p| &xt.nodes[p]);
            let got = h.parent();
            if !same_opt(&got, par) {
                bad!("C06:node.parent", "{here}: parent() = {} but the walk's parent is {}", show_node(&got), show_x(l, par));
            }
            if h.descendant_count() != size[i] {
                bad!("C06:node.descendant_count", "{here}: descendant_count() = {} but the walk found {}", h.descendant_count(), size[i]);
            }
            if let Some(p) = x.parent {
                let px = &xt.nodes[p];
                let hp = hs[p];
                let k = px.children.iter().position(|&c| c == i).unwrap();
                if px.children.len() > 1 || x.start == x.end {
                    nontrivial = true;
                    ctx.out.inner_hashes.push(fnv(format!("{lname}|{i}|{:?}", text.bytes).as_bytes()));
                }
                let zero_next = px.children.get(k + 1).map(|&c| xt.nodes[c].start == xt.nodes[c].end && xt.nodes[c].start == x.end).unwrap_or(false);
                let got = hp.child(k as u32);
                if !same_opt(&got, Some(x)) {
                    bad!("C06:node.child", "{here}: parent.child({k}) = {}", show_node(&got));
                }
                if x.named {
                    let nk = px.children[..k].iter().filter(|&&c| xt.nodes[c].named).count();
                    let got = hp.named_child(nk as u32);
                    if !same_opt(&got, Some(x)) {
                        bad!("C06:node.named_child", "{here}: parent.named_child({nk}) = {}", show_node(&got));
                    }
                }
                // siblings
                let nx = px.children.get(k + 1).map(|&c| &xt.nodes[c]);
                let got = h.next_sibling();
                if !same_opt(&got, nx) {
                    let sig = if zero_next { "C06:node.next_sibling:zero_width_next" } else if x.start == x.end { "C06:node.sibling:zero_width_self" } else { "C06:node.next_sibling" };
                    bad!(sig, "{here}: next_sibling() = {} but the walk's next sibling is {}", show_node(&got), show_x(l, nx));
                }
                let pv = if k > 0 { Some(&xt.nodes[px.children[k - 1]]) } else { None };
                let got = h.prev_sibling();
                if !same_opt(&got, pv) {
                    let sig = if x.start == x.end { "C06:node.sibling:zero_width_self" } else if pv.map(|c| c.start == c.end).unwrap_or(false) { "C06:node.prev_sibling:zero_width_prev" } else { "C06:node.prev_sibling" };
                    bad!(sig, "{here}: prev_sibling() = {} but the walk's previous sibling is {}", show_node(&got), show_x(l, pv));
                }
                let nnx = px.children[k + 1..].iter().map(|&c| &xt.nodes[c]).find(|c| c.named);
                let got = h.next_named_sibling();
                if !same_opt(&got, nnx) {
                    let first_named_is_zero = nnx.map(|c| c.start == c.end && c.start == x.end).unwrap_or(false) || zero_next;
                    let sig = if first_named_is_zero { "C06:node.next_sibling:zero_width_next" } else if x.start == x.end { "C06:node.sibling:zero_width_self" } else { "C06:node.next_named_sibling" };
                    bad!(sig, "{here}: next_named_sibling() = {} but the walk says {}", show_node(&got), show_x(l, nnx));
                }
                let pnx = px.children[..k].iter().rev().map(|&c| &xt.nodes[c]).find(|c| c.named);
                let got = h.prev_named_sibling();
                if !same_opt(&got, pnx) {
                    let sig = if x.start == x.end { "C06:node.sibling:zero_width_self" } else if pnx.map(|c| c.start == c.end).unwrap_or(false) { "C06:node.prev_sibling:zero_width_prev" } else { "C06:node.prev_named_sibling" };
                    bad!(sig, "{here}: prev_named_sibling() = {} but the walk says {}", show_node(&got), show_x(l, pnx));
                }
                // fields
                let fname = x.field.and_then(|f| l.field_name_for_id(f));
                let got = hp.field_name_for_child(k as u32);
                if got != fname {
                    bad!("C06:node.field_name_for_child", "{here}: parent.field_name_for_child({k}) = {:?} but the cursor says {:?}", got, fname);
                }
                if let Some(f) = x.field {
                    let first = px.children.iter().map(|&c| &xt.nodes[c]).find(|c| c.field == Some(f));
                    if first.map(|c| c.id == x.id && c.start == x.start).unwrap_or(false) {
                        let got = hp.child_by_field_id(f);
                        if !same_opt(&got, Some(x)) {
                            // does the answer lie below a sibling that is visible only through an alias of a hidden rule?
                            let below_aliased = got.map(|g| px.children.iter().any(|&c| xt.nodes[c].kind_id != xt.nodes[c].grammar_id && xt.nodes[c].start <= g.start_byte() && g.end_byte() <= xt.nodes[c].end && !xt.nodes[c].children.is_empty())).unwrap_or(false);
                            let sig = if px.error { "C06:node.child_by_field:error_parent" } else if below_aliased { "C06:node.child_by_field:descends_into_aliased_hidden_rule" } else { "C06:node.child_by_field" };
                            bad!(sig, "{here}: parent.child_by_field({:?}) = {}", fname, show_node(&got));
                        }
                    }
                }
                // first_child_for_byte at this child's boundaries
                for b in [x.start, x.end.saturating_sub(1), x.end] {
                    let model = px.children.iter().map(|&c| &xt.nodes[c]).find(|c| c.end > b);
                    let got = hp.first_child_for_byte(b);
                    if !same_opt(&got, model) {
                        bad!("C06:node.first_child_for_byte", "{here}: parent.first_child_for_byte({b}) = {} but the first child ending after {b} is {}", show_node(&got), show_x(l, model));
                    }
                }
                // child_with_descendant: deepest last descendant of this node
                let d = i + size[i] - 1;
                let got = hp.child_with_descendant(hs[d]);
                if !same_opt(&got, Some(x)) {
                    bad!("C06:node.child_with_descendant", "{here}: parent.child_with_descendant(node #{d}) = {}", show_node(&got));
                }
            }
            // descendant_for_byte_range / point_range around this node (from the root)
            if x.end > x.start {
                let got = root.descendant_for_byte_range(x.start, x.end);
                let gotp = root.descendant_for_point_range(Point { row: x.sp.0, column: x.sp.1 }, Point { row: x.ep.0, column: x.ep.1 });
                for (which, g) in [("byte", got), ("point", gotp)] {
                    match g {
                        None => bad!("C06:node.descendant_for_range", "{here}: descendant_for_{which}_range of the node's own range is null"),
                        Some(g) => {
                            if !(g.start_byte() <= x.start && g.end_byte() >= x.end) {
                                bad!("C06:node.descendant_for_range", "{here}: descendant_for_{which}_range returned {} which does not span the range", show_node(&Some(g)));
                            } else {
                                // must be this node, or a node with the same range below/above it only if ranges coincide or zero-width nodes touch
                                let gi = xt.nodes.iter().position(|y| same(&g, y));
                                match gi {
                                    None => bad!("C06:node.descendant_for_range", "{here}: descendant_for_{which}_range returned {} which the walk never visited", show_node(&Some(g))),
                                    Some(gi) => {
                                        let gx = &xt.nodes[gi];
                                        // no child of the result spans the range strictly inside (ignoring zero-width children)
                                        let better = gx.children.iter().map(|&c| &xt.nodes[c]).find(|c| c.start <= x.start && c.end >= x.end && c.end > c.start);
                                        let zero_touch = xt.nodes.iter().any(|y| y.start == y.end && (y.start == x.start || y.start == x.end));
                                        if let Some(bc) = better {
                                            if !zero_touch {
                                                bad!("C06:node.descendant_for_range:not_smallest", "{here}: descendant_for_{which}_range returned {} although its child {} also spans the range", show_node(&Some(g)), show_x(l, Some(bc)));
                                            }
                                        }
                                    }
                                }
                            }
                        }
                    }
                }
            }
            // --- cursor placed on this node
            let mut c: TreeCursor = root.walk();
            c.goto_descendant(i);
            if !same(&c.node(), x) {
                bad!("C06:cursor.goto_descendant", "{here}: goto_descendant({i}) landed on {}", show_node(&Some(c.node())));
                continue;
            }
            if c.depth() != x.depth {
                bad!("C06:cursor.depth", "{here}: depth() = {} but the walk's depth is {}", c.depth(), x.depth);
            }
            if c.descendant_index() != i {
                bad!("C06:cursor.descendant_index", "{here}: descendant_index() = {} expected {i}", c.descendant_index());
            }
            if c.field_id().map(|f| f.get()) != x.field {
                bad!("C06:cursor.field", "{here}: field after goto_descendant = {:?}, in the walk {:?}", c.field_id(), x.field);
            }
            let step = |name: &str, f: &dyn Fn(&mut TreeCursor) -> bool, model: Option<usize>| -> Option<String> {
                let mut c2 = c.clone();
                let ok = f(&mut c2);
                match model {
                    None => {
                        if ok {
                            return Some(format!("{name} moved to {} but the walk has no such node", show_node(&Some(c2.node()))));
                        }
                        if !same(&c2.node(), x) {
                            return Some(format!("{name} returned false but the cursor moved to {}", show_node(&Some(c2.node()))));
                        }
                    }
                    Some(m) => {
                        if !ok {
                            return Some(format!("{name} returned false but the walk has {}", show_x(l, Some(&xt.nodes[m]))));
                        }
                        let cn = c2.node();
                        if xt.nodes[m].kind_id != xt.nodes[m].grammar_id && !xt.nodes[m].children.is_empty() && xt.nodes[m].start <= cn.start_byte() && cn.end_byte() <= xt.nodes[m].end && name == "goto_previous_sibling" {
                            return Some(format!("ALIAS: {name} landed on {} inside the aliased node {} instead of on it", show_node(&Some(cn)), show_x(l, Some(&xt.nodes[m]))));
                        }
                        if cn.id() == xt.nodes[m].id && cn.start_byte() == xt.nodes[m].start && cn.end_byte() == xt.nodes[m].end && cn.kind_id() != xt.nodes[m].kind_id {
                            return Some(format!("ALIAS: {name} landed on the right subtree but reports kind {:?} where the walk says {}", cn.kind(), show_x(l, Some(&xt.nodes[m]))));
                        }
                        if !same(&c2.node(), &xt.nodes[m]) {
                            return Some(format!("{name} landed on {} but the walk says {}", show_node(&Some(c2.node())), show_x(l, Some(&xt.nodes[m]))));
                        }
                        if c2.descendant_index() != m {
                            return Some(format!("{name}: descendant_index() = {} expected {m}", c2.descendant_index()));
                        }
                        if c2.depth() != xt.nodes[m].depth {
                            return Some(format!("{name}: depth() = {} expected {}", c2.depth(), xt.nodes[m].depth));
                        }
                        if c2.field_id().map(|f| f.get()) != xt.nodes[m].field {
                            return Some(format!("{name}: field = {:?} expected {:?}", c2.field_id(), xt.nodes[m].field));
                        }
                    }
                }
                None
            };
            let (kidx, sibs): (usize, &[usize]) = match x.parent {
                Some(p) => (xt.nodes[p].children.iter().position(|&cc| cc == i).unwrap(), &xt.nodes[p].children[..]),
                None => (0, &[]),
            };
            let raw_hi = kidx >= 255;
            if let Some(m) = step("goto_first_child", &|c| c.goto_first_child(), x.children.first().copied()) {
                bad!("C06:cursor.first_child", "{here}: {m}");
            }
            if let Some(m) = step("goto_last_child", &|c| c.goto_last_child(), x.children.last().copied()) {
                bad!("C06:cursor.last_child", "{here}: {m}");
            }
            if let Some(m) = step("goto_next_sibling", &|c| c.goto_next_sibling(), sibs.get(kidx + 1).copied()) {
                bad!("C06:cursor.next_sibling", "{here}: {m}");
            }
            if let Some(m) = step("goto_previous_sibling", &|c| c.goto_previous_sibling(), if kidx > 0 { Some(sibs[kidx - 1]) } else { None }) {
                let sig = if m.starts_with("ALIAS:") {
                    "C06:cursor.prev_sibling:alias_misapplied"
                } else if m.contains("descendant_index()") {
                    "C06:cursor.prev_sibling:descendant_index"
                } else if raw_hi {
                    "C06:cursor.prev_sibling:raw_index_255"
                } else {
                    "C06:cursor.prev_sibling"
                };
                bad!(sig, "{here} (child index {kidx}): {m}");
            }
            if let Some(m) = step("goto_parent", &|c| c.goto_parent(), x.parent) {
                bad!("C06:cursor.parent", "{here}: {m}");
            }
            if !x.children.is_empty() {
                // first child for byte / point
                let probes: Vec<usize> = {
                    let k = x.children.len();
                    let picks = if k <= 6 { (0..k).collect::<Vec<_>>() } else { vec![0, 1, k / 2, k - 1] };
                    picks.into_iter().flat_map(|j| [xt.nodes[x.children[j]].start, xt.nodes[x.children[j]].end]).collect()
                };
                for b in probes {
                    let model_k = x.children.iter().position(|&cc| xt.nodes[cc].end > b);
                    let mut c2 = c.clone();
                    let got = c2.goto_first_child_for_byte(b);
                    if got != model_k || model_k.map(|k| !same(&c2.node(), &xt.nodes[x.children[k]])).unwrap_or(false) {
                        bad!("C06:cursor.first_child_for_byte", "{here}: goto_first_child_for_byte({b}) = {:?} (on {}), expected child index {:?}", got, show_node(&Some(c2.node())), model_k);
                    }
                    let p = text.point_of(b);
                    if b <= text.len() {
                        let model_kp = x.children.iter().position(|&cc| {
                            let y = &xt.nodes[cc];
                            y.end > 0 && (y.ep.0, y.ep.1) > (p.row, p.column)
                        });
                        let mut c3 = c.clone();
                        let got = c3.goto_first_child_for_point(p);
                        if got != model_kp {
                            bad!("C06:cursor.first_child_for_point", "{here}: goto_first_child_for_point({p:?}) = {:?}, expected child index {:?}", got, model_kp);
                        }
                    }
                }
            }
            // --- cursor rooted at this node
            if size[i] > 1 && t.pct(35) {
                ctx.count("inner_rooted_cursor");
                let mut rc = h.walk();
                if rc.goto_parent() || rc.goto_next_sibling() || rc.goto_previous_sibling() {
                    bad!("C06:cursor.rooted_escape", "{here}: a cursor created by node.walk() left its sub-tree");
                }
                let mut rc = h.walk();
                if rc.depth() != 0 || rc.descendant_index() != 0 {
                    bad!("C06:cursor.rooted_origin", "{here}: node.walk() starts at depth {} index {}", rc.depth(), rc.descendant_index());
                }
                let k = 1 + t.below(size[i] - 1);
                rc.goto_descendant(k);
                if !same(&rc.node(), &xt.nodes[i + k]) {
                    bad!("C06:cursor.rooted_goto_descendant", "{here}: rooted goto_descendant({k}) landed on {} expected {}", show_node(&Some(rc.node())), show_x(l, Some(&xt.nodes[i + k])));
                } else {
                    if rc.depth() != xt.nodes[i + k].depth - x.depth {
                        bad!("C06:cursor.rooted_depth", "{here}: rooted depth {} expected {}", rc.depth(), xt.nodes[i + k].depth - x.depth);
                    }
                    // walk up to the root of the sub-tree: must end exactly at this node
                    let mut ups = 0;
                    while rc.goto_parent() {
                        ups += 1;
                        if ups > 100000 {
                            break;
                        }
                    }
                    if !same(&rc.node(), x) || ups != (xt.nodes[i + k].depth - x.depth) {
                        bad!("C06:cursor.rooted_parent_chain", "{here}: walking up from descendant {k} took {ups} steps and ended on {}", show_node(&Some(rc.node())));
                    }
                }
                // sexp of an inner node
                if size[i] <= 400 && x.named && t.pct(30) {
                    let sub = XTree::build_from(h);
                    let mine = wildcard_unexpected(&sexp(&sub, lang, &text.bytes, 0));
                    let theirs = wildcard_unexpected(&h.to_sexp());
                    if mine != theirs {
                        bad!("C06:sexp:inner_mismatch", "{here}: inner to_sexp {:?} vs model {:?}", &theirs[..theirs.len().min(300)], &mine[..mine.len().min(300)]);
                    }
                }
            }
            if ctx.out.fails.len() >= 4 {
                break;
            }
        }
        ctx.out.nontrivial = nontrivial;
        ctx.out.hash = fnv(format!("{lname}|{:?}", text.bytes).as_bytes());
        if ctx.want_sample {
            ctx.out.sample = json!({"lang": lname, "class": class.name(), "edits": edits, "text": show_bytes(&text.bytes, 160), "nodes": n, "checked": chosen.len()});
        }
    }
}
