(variable) @arith.variable
(call function: (variable) @arith.function)
(number) @arith.number
(comment) @arith.comment
["+" "-" "*" "/" "^" "==" "<" "<=" "!"] @arith.operator
(paren) @arith.paren
(call) @arith.call
