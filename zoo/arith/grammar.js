export default grammar({
  name: 'arith',
  extras: $ => [/[ \t\r\n]/, $.comment],
  supertypes: $ => [$.expression],
  rules: {
    source: $ => repeat(seq($.expression, ';')),
    expression: $ => choice($.number, $.variable, $.binary, $.unary, $.paren, $.call),
    number: _ => /[0-9]+/,
    variable: _ => /[a-zA-Z_À-ɏα-ω][a-zA-Z_0-9À-ɏα-ω]*/,
    paren: $ => seq('(', field('inner', $.expression), ')'),
    call: $ => prec(10, seq(field('function', $.variable), '(', optional(field('arguments', $.args)), ')')),
    args: $ => seq($.expression, repeat(seq(',', $.expression))),
    unary: $ => prec(5, seq(field('operator', choice('-', '!')), field('operand', $.expression))),
    binary: $ => choice(
      prec.left(1, seq(field('left', $.expression), field('operator', choice('+', '-')), field('right', $.expression))),
      prec.left(2, seq(field('left', $.expression), field('operator', choice('*', '/')), field('right', $.expression))),
      prec.right(3, seq(field('left', $.expression), field('operator', '^'), field('right', $.expression))),
      prec.left(0, seq(field('left', $.expression), field('operator', choice('==', '<', '<=')), field('right', $.expression))),
    ),
    comment: _ => token(seq('#', /[^\n]*/)),
  }
});
