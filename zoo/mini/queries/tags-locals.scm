(function_definition) @local.scope
(block) @local.scope
(parameter name: (identifier) @local.definition)
(let_statement name: (identifier) @local.definition)
(identifier) @local.reference
; a scope that can END with a name: the right-hand side of an assignment
(assignment) @local.scope
(assignment left: (identifier) @local.definition)
