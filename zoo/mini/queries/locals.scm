(function_definition) @local.scope
(block) @local.scope
(parameter name: (identifier) @local.definition)
(let_statement name: (identifier) @local.definition)
(identifier) @local.reference
