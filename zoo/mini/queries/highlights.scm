; highlight query of the mini zoo language (C17). Later patterns win for the same node.
(identifier) @mini.variable
(parameter name: (identifier) @mini.variable.parameter)
(let_statement name: (identifier) @mini.variable.local)
(function_definition name: (identifier) @mini.function)
(call_expression function: (identifier) @mini.function.call)
(property_name) @mini.property
(number) @mini.number
(string) @mini.string
(escape_sequence) @mini.string.escape
(line_comment) @mini.comment
(block_comment) @mini.comment
(pragma) @mini.pragma
["if" "else" "while" "return" "let" "fn"] @mini.keyword
["(" ")" "{" "}"] @mini.punct
(call_expression) @mini.call
(block) @mini.block
