((string_content) @injection.content
 (#set! injection.language "arith"))
