; tags query of the mini zoo language (C18)
((call_expression function: (identifier) @ignore)
 (#eq? @ignore "skip"))

(
  (line_comment)* @doc
  .
  (function_definition name: (identifier) @name) @definition.function
  (#strip! @doc "^//\\s*")
  (#select-adjacent! @doc @definition.function)
)

(let_statement name: (identifier) @name) @definition.variable

((call_expression function: (identifier) @name) @reference.call
 (#is-not? local))

(member property: (property_name) @name) @reference.property

((assignment right: (identifier) @name) @reference.variable
 (#is-not? local))
