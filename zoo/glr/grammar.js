export default grammar({
  name: 'glr',
  extras: _ => [/[ \t\r\n]/],
  conflicts: $ => [
    [$.type_name, $._expression],
    [$.generic_type, $._expression],
  ],
  rules: {
    program: $ => repeat($._statement),
    _statement: $ => choice($.declaration, $.expression_statement),
    declaration: $ => prec.dynamic(1, seq(field('type', $._type), field('declarator', $._declarator), ';')),
    _type: $ => choice($.type_name, $.generic_type),
    type_name: $ => $.identifier,
    generic_type: $ => seq($.identifier, '<', $._type, '>'),
    _declarator: $ => choice($.identifier, $.pointer_declarator),
    pointer_declarator: $ => seq('*', $._declarator),
    expression_statement: $ => seq($._expression, ';'),
    _expression: $ => choice($.identifier, $.number, $.multiplication, $.comparison, $.parenthesized),
    parenthesized: $ => seq('(', $._expression, ')'),
    multiplication: $ => prec.left(2, seq(field('left', $._expression), '*', field('right', $._expression))),
    comparison: $ => prec.left(1, seq(field('left', $._expression), field('operator', choice('<', '>')), field('right', $._expression))),
    identifier: _ => /[a-zA-Z_][a-zA-Z_0-9]*/,
    number: _ => /[0-9]+/,
  }
});
