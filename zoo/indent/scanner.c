#include "tree_sitter/parser.h"
#include <stdlib.h>
#include <string.h>
#include <stdint.h>

enum { NEWLINE, INDENT, DEDENT, ERROR_SENTINEL };
#define MAX_DEPTH 200
typedef struct { uint16_t len; uint16_t stack[MAX_DEPTH]; } S;

void *tree_sitter_indent_external_scanner_create(void) {
  S *s = calloc(1, sizeof(S));
  s->len = 1; s->stack[0] = 0;
  return s;
}
void tree_sitter_indent_external_scanner_destroy(void *p) { free(p); }
unsigned tree_sitter_indent_external_scanner_serialize(void *p, char *buf) {
  S *s = p;
  unsigned n = 0;
  /* the base level is implicit */
  for (unsigned i = 1; i < s->len && n + 2 <= TREE_SITTER_SERIALIZATION_BUFFER_SIZE; i++) {
    buf[n++] = (char)(s->stack[i] & 0xff);
    buf[n++] = (char)(s->stack[i] >> 8);
  }
  return n;
}
void tree_sitter_indent_external_scanner_deserialize(void *p, const char *buf, unsigned n) {
  S *s = p;
  s->len = 1; s->stack[0] = 0;
  for (unsigned i = 0; i + 1 < n && s->len < MAX_DEPTH; i += 2) {
    s->stack[s->len++] = (uint16_t)((uint8_t)buf[i] | ((uint8_t)buf[i + 1] << 8));
  }
}
static int is_nl(int32_t c) { return c == '\n'; }
bool tree_sitter_indent_external_scanner_scan(void *p, TSLexer *lx, const bool *valid) {
  S *s = p;
  if (valid[ERROR_SENTINEL]) return false;
  if (valid[NEWLINE]) {
    while (lx->lookahead == ' ' || lx->lookahead == '\t' || lx->lookahead == '\r') lx->advance(lx, true);
    if (lx->eof(lx)) { lx->mark_end(lx); lx->result_symbol = NEWLINE; return true; }
    if (is_nl(lx->lookahead)) {
      for (;;) {
        lx->advance(lx, false);
        while (lx->lookahead == ' ' || lx->lookahead == '\t' || lx->lookahead == '\r') lx->advance(lx, false);
        if (!is_nl(lx->lookahead)) break;
      }
      lx->mark_end(lx);
      lx->result_symbol = NEWLINE;
      return true;
    }
    return false;
  }
  if (valid[INDENT] || valid[DEDENT]) {
    uint32_t col = lx->eof(lx) ? 0 : lx->get_column(lx);
    uint16_t top = s->stack[s->len - 1];
    if (valid[INDENT] && !lx->eof(lx) && col > top && s->len < MAX_DEPTH) {
      s->stack[s->len++] = (uint16_t)(col > 65535 ? 65535 : col);
      lx->mark_end(lx);
      lx->result_symbol = INDENT;
      return true;
    }
    if (valid[DEDENT] && col < top && s->len > 1) {
      s->len--;
      lx->mark_end(lx);
      lx->result_symbol = DEDENT;
      return true;
    }
  }
  return false;
}
