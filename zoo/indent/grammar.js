export default grammar({
  name: 'indent',
  externals: $ => [$.newline, $.indent, $.dedent, $._error_sentinel],
  extras: _ => [/[ \t\r]/],
  word: $ => $.identifier,
  rules: {
    module: $ => repeat($._statement),
    _statement: $ => choice($.expression_statement, $.pass_statement, $.if_statement, $.while_statement, $.def_statement),
    expression_statement: $ => seq($._expression, $.newline),
    pass_statement: $ => seq('pass', $.newline),
    if_statement: $ => seq('if', field('condition', $._expression), ':', $.newline, field('body', $.block), optional(field('alternative', $.else_clause))),
    else_clause: $ => seq('else', ':', $.newline, $.block),
    while_statement: $ => seq('while', field('condition', $._expression), ':', $.newline, field('body', $.block)),
    def_statement: $ => seq('def', field('name', $.identifier), '(', optional(seq($.identifier, repeat(seq(',', $.identifier)))), ')', ':', $.newline, field('body', $.block)),
    block: $ => seq($.indent, repeat1($._statement), $.dedent),
    _expression: $ => choice($.identifier, $.number, $.call, $.binary),
    call: $ => prec(5, seq(field('function', $.identifier), '(', optional(seq($._expression, repeat(seq(',', $._expression)))), ')')),
    binary: $ => choice(
      prec.left(1, seq(field('left', $._expression), field('operator', choice('+', '-')), field('right', $._expression))),
      prec.left(2, seq(field('left', $._expression), field('operator', '*'), field('right', $._expression))),
      prec.left(0, seq(field('left', $._expression), field('operator', '=='), field('right', $._expression))),
    ),
    identifier: _ => /[a-zA-Z_é][a-zA-Z_0-9é]*/,
    number: _ => /[0-9]+/,
  }
});
