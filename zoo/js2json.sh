#!/bin/sh
# usage: zoo/js2json.sh <dir>   -- converts <dir>/grammar.js to <dir>/grammar.json with the repo's dsl.js (authoring-time only)
set -e
d=$(cd "$1" && pwd)
( printf 'globalThis.TREE_SITTER_CLI_VERSION_MAJOR=0;globalThis.TREE_SITTER_CLI_VERSION_MINOR=27;globalThis.TREE_SITTER_CLI_VERSION_PATCH=0;'; cat /repo/crates/generate/src/dsl.js ) \
 | TREE_SITTER_GRAMMAR_PATH="$d/grammar.js" node --input-type=module - | tail -n 1 | python3 -m json.tool > "$d/grammar.json"
echo "wrote $d/grammar.json"
