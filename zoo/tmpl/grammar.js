export default grammar({
  name: 'tmpl',
  extras: _ => [],
  rules: {
    template: $ => repeat(choice($.text, $.directive, $.output)),
    directive: $ => seq('<%', optional($.code), '%>'),
    output: $ => seq('<%=', optional($.code), '%>'),
    code: _ => token(repeat1(choice(/[^%]/, /%[^>]/))),
    text: _ => token(prec(-1, repeat1(choice(/[^<]/, /<[^%]/)))),
  }
});
