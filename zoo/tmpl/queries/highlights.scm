["<%" "<%=" "%>"] @tmpl.delim
(text) @tmpl.text
(directive) @tmpl.directive
(output) @tmpl.output
(code) @tmpl.code
