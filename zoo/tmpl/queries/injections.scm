(directive (code) @injection.content
 (#set! injection.language "mini"))
(output (code) @injection.content
 (#set! injection.language "arith"))
