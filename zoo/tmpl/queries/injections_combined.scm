(directive (code) @injection.content
 (#set! injection.language "mini")
 (#set! injection.combined))
(output (code) @injection.content
 (#set! injection.language "arith"))
