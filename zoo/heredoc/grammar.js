export default grammar({
  name: 'heredoc',
  externals: $ => [$.heredoc_start, $.heredoc_body, $.heredoc_end, $._error_sentinel],
  extras: _ => [/[ \t]/],
  rules: {
    script: $ => seq(repeat($._line), optional($.command)),
    _line: $ => choice(seq($.command, $.nl), $.nl),
    nl: _ => /\r?\n/,
    command: $ => seq(field('name', $.word), repeat(field('argument', choice($.word, $.string))), optional(field('redirect', $.heredoc))),
    heredoc: $ => seq('<<', $.heredoc_start, $.nl, optional($.heredoc_body), $.heredoc_end),
    word: _ => /[a-zA-Z0-9_.\/é-]+/,
    string: _ => /'[^'\n]*'/,
  }
});
