#include "tree_sitter/parser.h"
#include <stdlib.h>
#include <string.h>
#include <stdint.h>

enum { START, BODY, END, ERROR_SENTINEL };
#define MAXD 100
typedef struct { uint8_t len; char delim[MAXD]; } H;

void *tree_sitter_heredoc_external_scanner_create(void) { return calloc(1, sizeof(H)); }
void tree_sitter_heredoc_external_scanner_destroy(void *p) { free(p); }
unsigned tree_sitter_heredoc_external_scanner_serialize(void *p, char *buf) {
  H *h = p;
  memcpy(buf, h->delim, h->len);
  return h->len;
}
void tree_sitter_heredoc_external_scanner_deserialize(void *p, const char *buf, unsigned n) {
  H *h = p;
  if (n > MAXD) n = MAXD;
  h->len = (uint8_t)n;
  if (n) memcpy(h->delim, buf, n);
}
static int is_id(int32_t c) { return (c >= 'a' && c <= 'z') || (c >= 'A' && c <= 'Z') || c == '_' || (c >= '0' && c <= '9'); }
bool tree_sitter_heredoc_external_scanner_scan(void *p, TSLexer *lx, const bool *valid) {
  H *h = p;
  if (valid[ERROR_SENTINEL]) return false;
  if (valid[START]) {
    while (lx->lookahead == ' ' || lx->lookahead == '\t') lx->advance(lx, true);
    unsigned n = 0;
    while (is_id(lx->lookahead) && n < MAXD) { h->delim[n++] = (char)lx->lookahead; lx->advance(lx, false); }
    if (n == 0 || is_id(lx->lookahead)) { h->len = 0; return false; }
    h->len = (uint8_t)n;
    lx->mark_end(lx);
    lx->result_symbol = START;
    return true;
  }
  if ((valid[BODY] || valid[END]) && h->len > 0) {
    bool any_body = false;
    lx->mark_end(lx);
    for (;;) {
      unsigned i = 0;
      while (i < h->len && lx->lookahead == (int32_t)(unsigned char)h->delim[i]) { lx->advance(lx, false); i++; }
      if (i == h->len && (lx->eof(lx) || lx->lookahead == '\n' || lx->lookahead == '\r')) {
        if (any_body) {
          if (!valid[BODY]) return false;
          lx->result_symbol = BODY; /* ends before the delimiter line (marked earlier) */
          return true;
        }
        if (!valid[END]) return false;
        lx->mark_end(lx);
        h->len = 0;
        lx->result_symbol = END;
        return true;
      }
      if (lx->eof(lx) && i == 0 && !any_body) return false;
      while (!lx->eof(lx) && lx->lookahead != '\n') lx->advance(lx, false);
      if (lx->eof(lx)) {
        if (!valid[BODY]) return false;
        lx->mark_end(lx);
        lx->result_symbol = BODY;
        return true;
      }
      lx->advance(lx, false);
      lx->mark_end(lx);
      any_body = true;
      if (!valid[BODY]) return false;
    }
  }
  return false;
}
