export default grammar({
  name: 'alias',
  extras: $ => [/[ \t\r\n]/, $.note],
  word: $ => $.identifier,
  rules: {
    source: $ => repeat($._statement),
    _statement: $ => choice($.get, $.set, $.mk, $.call, $.del, $.tag, $.nest),
    // a field on a hidden rule whose visible children sit two hidden levels down (the inner level has no field of its own)
    nest: $ => seq('nest', field('head', $._outer), optional(field('tail', $._inner)), ';'),
    _outer: $ => seq($._inner, $.number),
    _inner: $ => seq($.identifier, $.identifier),
    // a token that is an extra everywhere else is an ordinary member here: re-parses can reuse it in the other role
    tag: $ => seq('@', $.note),
    // the same visible symbol (path) un-aliased in one production and aliased in another of the same parent
    get: $ => seq('get', $.path, ';'),
    set: $ => seq('set', alias($.path, $.target), optional(seq('=', field('value', $.path))), ';'),
    del: $ => seq('del', alias($.path, $.target), ';'),
    // a hidden rule aliased in one place (inside a field) and used un-aliased elsewhere
    mk: $ => seq('mk', field('lhs', alias($._pair, $.pair)), '=', field('rhs', $._pair), ';'),
    call: $ => seq('call', field('fn', $.identifier), alias($._pair, $.args), optional($._pair), ';'),
    path: $ => seq($.identifier, repeat(seq('.', alias($.identifier, $.segment)))),
    _pair: $ => seq('(', field('first', $.identifier), alias(',', 'comma'), $.number, ')'),
    identifier: _ => /[a-zA-Z_][a-zA-Z_0-9]*/,
    number: _ => /[0-9]+/,
    note: _ => token(seq('#', /[^\n]*/)),
  }
});
