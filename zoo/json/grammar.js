export default grammar({
  name: 'json',
  extras: _ => [/[ \t\r\n]/],
  supertypes: $ => [$._value],
  rules: {
    document: $ => repeat($._value),
    _value: $ => choice($.object, $.array, $.number, $.string, $.true, $.false, $.null, $.bareword),
    object: $ => seq('{', optional(seq($.pair, repeat(seq(',', $.pair)))), '}'),
    pair: $ => seq(field('key', $.string), ':', field('value', $._value)),
    array: $ => seq('[', optional(seq($._value, repeat(seq(',', $._value)))), ']'),
    string: $ => seq('"', repeat(choice($.string_content, $.escape_sequence)), '"'),
    string_content: _ => token.immediate(prec(1, /[^\\"\n]+/)),
    escape_sequence: _ => token.immediate(seq('\\', choice(/["\\\/bfnrt]/, /u[0-9a-fA-F]{4}/))),
    number: _ => /-?(0|[1-9][0-9]*)(\.[0-9]+)?([eE][+-]?[0-9]+)?/,
    true: _ => 'true',
    false: _ => 'false',
    null: _ => 'null',
    bareword: _ => /\p{Lu}[\p{L}\p{Nd}]*/,
  }
});
