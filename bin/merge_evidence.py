#!/usr/bin/env python3
"""merge_evidence.py <ID> <SUB> <label>: fold evidence/<SUB>.json into evidence/<ID>.json under coverage.extra[label]"""
import json, os, sys
main, sub, label = sys.argv[1:4]
pm, ps = f"/verif/evidence/{main}.json", f"/verif/evidence/{sub}.json"
try:
    m = json.load(open(pm)); s = json.load(open(ps))
except Exception as e:
    print("merge_evidence:", e); sys.exit(0)
cov = m["coverage"]
cov[label] = {k: s["coverage"].get(k) for k in ("evaluations", "cases", "distinct_nontrivial", "labels", "failing_cases", "failure_signatures", "inconclusive")}
cov[label]["wall_s"] = s.get("wall_s")
cov["evaluations"] = cov.get("evaluations", 0) + s["coverage"].get("evaluations", 0)
cov["distinct_nontrivial"] = cov.get("distinct_nontrivial", 0) + s["coverage"].get("distinct_nontrivial", 0)
m["violations"] = m.get("violations", 0) + s.get("violations", 0)
m["wall_s"] = m.get("wall_s", 0) + s.get("wall_s", 0)
json.dump(m, open(pm, "w"), indent=1)
os.remove(ps)
