# build variants of the engine; all build /repo's working tree through path dependencies
HOOK_RUSTFLAGS="--cfg tree_sitter_verif"
HOOK_CFLAGS="-DTREE_SITTER_VERIF"
build_variant() {
  case "$1" in
    plain)
      RUSTFLAGS="$HOOK_RUSTFLAGS" CFLAGS="$HOOK_CFLAGS" CARGO_TARGET_DIR=/verif/target/plain \
        cargo build --release --offline -q 2>/verif/target/plain-build.log || { tail -40 /verif/target/plain-build.log; return 1; } ;;
    asan)
      RUSTFLAGS="$HOOK_RUSTFLAGS -Zsanitizer=address -C link-arg=-Wl,--export-dynamic" CC=clang CFLAGS="$HOOK_CFLAGS -fsanitize=address,undefined -fsanitize-trap=undefined -fno-omit-frame-pointer -g" \
        CARGO_TARGET_DIR=/verif/target/asan cargo +nightly build --release --offline -q --target x86_64-unknown-linux-gnu 2>/verif/target/asan-build.log || { tail -40 /verif/target/asan-build.log; return 1; } ;;
    tsan)
      RUSTFLAGS="$HOOK_RUSTFLAGS -Zsanitizer=thread -C link-arg=-Wl,--export-dynamic" CC=clang CFLAGS="$HOOK_CFLAGS -fsanitize=thread -g" \
        CARGO_TARGET_DIR=/verif/target/tsan cargo +nightly build --release --offline -q -Zbuild-std --target x86_64-unknown-linux-gnu 2>/verif/target/tsan-build.log || { tail -40 /verif/target/tsan-build.log; return 1; } ;;
    *) echo "unknown variant $1"; return 1;;
  esac
}
variant_bin() {
  case "$1" in
    plain) echo /verif/target/plain/release/vcheck;;
    asan) echo /verif/target/asan/x86_64-unknown-linux-gnu/release/vcheck;;
    tsan) echo /verif/target/tsan/x86_64-unknown-linux-gnu/release/vcheck;;
  esac
}
run_variant() {
  v="$1"; shift
  case "$v" in
    plain) "$@";;
    asan) VERIF_WORK=/verif/work/asan VERIF_PARSER_CC=clang VERIF_PARSER_CFLAGS="-fsanitize=address,undefined -fsanitize-trap=undefined -fno-omit-frame-pointer -g" \
          ASAN_OPTIONS="detect_leaks=1:abort_on_error=0:exitcode=77:allocator_may_return_null=1:detect_stack_use_after_return=0" "$@";;
    tsan) VERIF_WORK=/verif/work/tsan VERIF_PARSER_CC=clang VERIF_PARSER_CFLAGS="-fsanitize=thread -g" \
          TSAN_OPTIONS="report_atomic_races=0:exitcode=66:halt_on_error=1" "$@";;
  esac
}
